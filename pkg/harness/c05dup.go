package harness

import (
	"bytes"
	"fmt"
	"reflect"

	"verif/pkg/bridge"
	"verif/pkg/simnet"
	"verif/simrt"
)

// C05, values the wire cannot tell apart from smaller ones: a Go map keyed by time.Time
// can hold two keys that are the same date on the wire (the same instant in two zones).
// EncodeBebop writes both entries; a decoder ends up with one. The reference model has no
// such value, so this scenario asks only what C05 says about POSITION: each DecodeBebop
// takes exactly the bytes EncodeBebop wrote for one record, and the same bytes decode to
// the same thing twice. (That the decoded value is smaller than what was consumed is the
// format's doing: DESIGN.md section 13.)

func init() { execs["dupkeys"] = execDupKeys }

func execDupKeys(n *Node, sc *Scenario) *Violation {
	b := n.Build(sc.Prog, sc.Mask, false)
	if b == nil || sc.Value == nil {
		note(sc, "skipped", "build absent")
		return nil
	}
	tt, _, err := n.typeOf(b, sc.Type)
	if err != nil {
		note(sc, "skipped", "no such type")
		return nil
	}
	rec, err := n.fill(b, sc.Type, *sc.Value)
	if err != nil {
		return mismatch("bridge|fill", err.Error(), nil)
	}
	if bridge.DupDateKeys(reflect.ValueOf(rec).Elem()) == 0 {
		note(sc, "skipped", "no date-keyed map with entries")
		return nil
	}
	kind := recordKind(b.Schema, sc.Type)
	eo := n.encode(rec, "encode", sc.Order, nil, nil, "plain")
	if v := callViolation(&eo.Call, sc, b.Schema, "encode"); v != nil {
		return v
	}
	if eo.Err != nil {
		return mismatch("dupkeys|encode-error", eo.Err.Error(), nil)
	}
	one := eo.Bytes
	stream := append(append(append([]byte(nil), one...), one...), 0xEE, 0xEE, 0xEE)
	s := simnet.Schedule{}
	if sc.Sched != nil {
		s = *sc.Sched
	}
	link := simnet.NewLink(stream, s, nil)
	rw := wrapReader(sc.Reader, link)
	alloc, steps := budgetsFor(b.Schema, len(stream))
	simrt.SetMapOrder(simrt.OrderCanonical, 0)
	defer simrt.SetMapOrder(simrt.OrderNative, 0)
	var again [2][]byte
	for i := 0; i < 2; i++ {
		got := tt.New()
		var derr error
		cr := safeCall(alloc, steps, func() { derr = got.DecodeBebop(rw.r) })
		if v := callViolation(&cr, sc, b.Schema, "decode"); v != nil {
			return v
		}
		if derr != nil {
			return mismatch("dupkeys|decode-error|"+kind, fmt.Sprintf("record %d of 2 (what EncodeBebop wrote for a value whose date-keyed map holds one instant in two zones) was rejected: %v", i+1, derr), map[string]string{"op": "decode", "record_kind": kind})
		}
		if c := rw.consumed(link); c != (i+1)*len(one) {
			return &Violation{Class: "position", Signature: "position|dupkeys|" + kind,
				Detail: fmt.Sprintf("after record %d of 2 the decoder has taken %d bytes from the stream, EncodeBebop wrote %d per record", i+1, c, len(one)),
				Facts:  map[string]string{"op": "decode", "record_kind": kind}}
		}
		var mb []byte
		cr = safeCall(0, 0, func() { mb = got.MarshalBebop() })
		if cr.Panicked {
			return &Violation{Class: "panic", Signature: "panic|dupkeys|marshal-decoded|" + kind, Detail: cr.PanicText()}
		}
		again[i] = mb
	}
	if !bytes.Equal(again[0], again[1]) {
		return mismatch("dupkeys|unstable|"+kind, "the same bytes decoded twice from one stream give two different values", map[string]string{"op": "decode", "record_kind": kind})
	}
	return nil
}
