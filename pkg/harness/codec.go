package harness

import (
	"bytes"
	"fmt"
	"io"
	"reflect"
	"strings"

	"github.com/200sc/bebop/iohelp"

	"verif/pkg/bridge"
	"verif/pkg/prng"
	"verif/pkg/proto"
	"verif/pkg/refcodec"
	"verif/pkg/reg"
	"verif/pkg/schema"
	"verif/pkg/simnet"
	"verif/pkg/val"
	"verif/simrt"
)

// ---------------------------------------------------------------------------------
// drawing the common parts of a codec scenario

type pick struct {
	B    *Build
	Type string
	Def  *schema.Def
	Gen  *val.Gen
}

func (c *Ctx) param(name string, def int) int {
	if v, ok := c.N.Batch.Params[name]; ok {
		return v
	}
	return def
}

// pickRecord draws a (program, build, record type) with a Go type and finite values.
func (c *Ctx) pickRecord(cfg val.GenCfg) *pick {
	n := c.N
	if len(n.Batch.Programs) == 0 {
		return nil
	}
	for try := 0; try < 64; try++ {
		p := &n.Batch.Programs[c.R.Intn(len(n.Batch.Programs))]
		if c.onlyProgram != "" {
			var idx []int
			for i := range n.Batch.Programs {
				if s := n.Batch.Programs[i].Schema; s != nil && s.Name == c.onlyProgram {
					idx = append(idx, i)
				}
			}
			if len(idx) > 0 {
				p = &n.Batch.Programs[idx[c.R.Intn(len(idx))]]
			}
		}
		bs := n.ByProg[p.ID]
		if len(bs) == 0 {
			continue
		}
		b := bs[c.R.Intn(len(bs))]
		recs := b.Schema.Records()
		if len(recs) == 0 {
			continue
		}
		d := recs[c.R.Intn(len(recs))]
		if b.Types[d.Name] == nil {
			continue
		}
		vcfg := cfg
		if c.R.Chance(1, 12) {
			// DEEP values: recursion and nesting of length-prefixed records well beyond the
			// default depth, kept narrow so that they stay small
			vcfg.MaxDepth = c.R.Range(5, 9)
			vcfg.MaxElems = 1
			vcfg.FullMsg = 90
			vcfg.Ladder = 0
			vcfg.LongProb = 0
			c.Count("deep_values", 1)
			if c.R.Chance(1, 3) {
				// VERY deep and narrow: a spine of 24..40 nested records (work that doubles
				// per level shows only here), a few hundred records in all
				vcfg.MaxDepth = c.R.Range(24, 40)
				vcfg.MaxNodes = 120
				vcfg.FullMsg = 100
				c.Count("very_deep_values", 1)
			}
		}
		g := val.NewGen(b.Schema, c.R.Fork("value"), vcfg)
		if !g.Inhabited(d.Name) {
			continue
		}
		return &pick{B: b, Type: d.Name, Def: d, Gen: g}
	}
	return nil
}

func drawOrder(r *prng.Rand) MapOrder {
	switch r.Intn(4) {
	case 0:
		return MapOrder{Strategy: simrt.OrderCanonical}
	case 1:
		return MapOrder{Strategy: simrt.OrderReverse}
	case 2:
		return MapOrder{Strategy: simrt.OrderRotate}
	}
	return MapOrder{Strategy: simrt.OrderShuffle, Seed: r.Uint64()}
}

func drawDirty(r *prng.Rand) *Dirty {
	d := &Dirty{Fill: []string{"zero", "ff", "random"}[r.Intn(3)], Seed: r.Uint64()}
	if r.Bool() {
		d.Pad = r.Range(1, 17)
	}
	return d
}

var readerKinds = []string{"plain", "bytereader", "errorreader", "bufio", "fat", "limited", "limited-tight", "bytesreader", "bytesbuffer"}
var writerKinds = []string{"plain", "errorwriter", "fat", "seeker", "append-seeker"}

// drawSchedule draws a chunk schedule for data (spans may be nil).
func drawSchedule(r *prng.Rand, n int, spans []refcodec.Span) *simnet.Schedule {
	if n > 1<<19 {
		// megabytes: pieces of kilobytes (millions of tiny reads cost seconds and show
		// nothing the tiny reads of small records do not)
		k := r.Intn(8)
		return &simnet.Schedule{Name: "fixed", Repeat: []int{0, 512, 4096, 4097, 65536, 100000, 1 << 20, 3}[k] + 1000*(k/7), EOFWithData: r.Chance(1, 4)}
	}
	switch r.Intn(8) {
	case 0:
		return &simnet.Schedule{Name: "all"}
	case 1:
		return &simnet.Schedule{Name: "1-byte", Repeat: 1}
	case 2:
		return &simnet.Schedule{Name: "fixed", Repeat: r.Range(2, 7)}
	case 3:
		return scheduleBoundaries("straddle", n, spans, r.Range(1, 3))
	case 4:
		return scheduleBoundaries("align", n, spans, 0)
	case 5:
		// last chunk arrives together with EOF
		return &simnet.Schedule{Name: "eof-with-data", Repeat: r.Range(1, 9), EOFWithData: true}
	case 6:
		// stalls sprinkled in
		s := &simnet.Schedule{Name: "stalls"}
		for i := 0; i < 24; i++ {
			if r.Chance(1, 4) {
				s.Chunks = append(s.Chunks, 0)
			} else {
				s.Chunks = append(s.Chunks, r.Range(1, 5))
			}
		}
		s.Repeat = r.Range(1, 4)
		return s
	}
	s := &simnet.Schedule{Name: "random"}
	for i := 0; i < 32; i++ {
		s.Chunks = append(s.Chunks, r.Range(1, 9))
	}
	return s
}

// scheduleBoundaries makes chunks end `after` bytes past each structural boundary.
// Because a chunk bounds one Read call (which may be limited by the caller's buffer),
// this is expressed as a per-read bound list computed for sequential exact-width reads;
// it degrades gracefully (still a legal schedule) when the decoder reads differently.
func scheduleBoundaries(name string, n int, spans []refcodec.Span, after int) *simnet.Schedule {
	s := &simnet.Schedule{Name: name}
	prev := 0
	for _, sp := range spans {
		cut := sp.End + after
		if cut > n {
			cut = n
		}
		if cut > prev {
			s.Chunks = append(s.Chunks, cut-prev)
			prev = cut
		}
		if len(s.Chunks) >= 64 {
			break
		}
	}
	s.Repeat = 3
	return s
}

var allEncoders = []string{"marshal", "marshalto", "encode"}
var allDecoders = []string{"unmarshal", "mustunmarshal", "decode", "make", "makefrombytes", "mustmakefrombytes"}

func (c *Ctx) replay(sc *Scenario, v *Violation) *Replay {
	return &Replay{Scenario: *sc, Violation: *v}
}

// ---------------------------------------------------------------------------------
// C01: what one peer sent is what the other got (fault-free configuration)

func init() {
	props["C01"] = runC01
	execs["roundtrip"] = execRoundTrip
}

func runC01(c *Ctx) *Replay {
	cfg := val.DefaultCfg()
	cfg.LongProb = c.param("longprob", 40)
	cfg.LongLen = c.param("longlen", 300)
	if c.R.Chance(1, 50) {
		cfg.LongLen = 70000 // strings beyond 64 KiB
		cfg.LongProb = 3
	}
	pk := c.pickRecord(cfg)
	if pk == nil {
		c.Count("no_record", 1)
		return nil
	}
	v := pk.Gen.Record(pk.Type)
	base := Scenario{Kind: "roundtrip", Prog: pk.B.Prog.ID, Mask: pk.B.Mask, PeerMask: -1, Type: pk.Type, Value: &v}
	c.Log("C01", pk.B.Name(), pk.Type)
	c.State("shape", pk.B.Schema.DefShape(pk.Def, 0))
	data, spans := refcodec.EncodeSpans(pk.B.Schema, schema.Type{Named: pk.Type}, val.Normalise(pk.B.Schema, schema.Type{Named: pk.Type}, v))
	c.Sample(map[string]interface{}{"program": pk.B.Name(), "type": pk.Type, "shape": pk.B.Schema.DefShape(pk.Def, 0), "wire_len": len(data)})
	if pk.Def.ReadOnly {
		sc := base
		sc.Extra = map[string]string{"api": "readonly"}
		if viol := execReadOnlyAPI(c.N, &sc); viol != nil {
			return c.reportPlain(&sc, viol)
		}
		c.Count("readonly_api_checked", 1)
	}
	for _, e := range allEncoders {
		for _, d := range allDecoders {
			sc := base
			sc.Encoder, sc.Decoder = e, d
			sc.Order = drawOrder(c.R)
			if e == "marshalto" {
				sc.Dirty = drawDirty(c.R)
			}
			if isStreamDecoder(d) {
				sc.Sched = drawSchedule(c.R, len(data), spans)
				sc.Reader = readerKinds[c.R.Intn(len(readerKinds))]
			}
			if c.R.Chance(1, 4) {
				// the process has a past: decodes of this type that FAILED (empty and cut
				// streams, cut buffers) came before this one
				sc.Again = true
				c.Count("after_failed_decodes", 1)
			}
			viol := execRoundTrip(c.N, &sc)
			c.Count("evaluations", 1)
			if sc.Extra["skipped"] != "" {
				c.Count("pairing_absent", 1)
				continue
			}
			c.Count("pair:"+e+">"+d, 1)
			c.State("c01", pk.B.Schema.DefShape(pk.Def, 0), e, d)
			if sc.Sched != nil {
				c.Count("sched:"+sc.Sched.Name, 1)
			}
			c.Log(e, d, viol == nil)
			if viol != nil {
				return c.shrinkAndReport(&sc, viol)
			}
		}
	}
	return nil
}

// checkReadOnlyAPI exercises the API of a readonly struct: New<T>(fields...) must build the
// value its arguments describe and every Get<Field>() must return that field.
func execReadOnlyAPI(n *Node, sc *Scenario) *Violation {
	b := n.Build(sc.Prog, sc.Mask, false)
	if b == nil || sc.Value == nil {
		return nil
	}
	pk := &pick{B: b, Type: sc.Type, Def: b.Schema.Lookup(sc.Type)}
	t := pk.B.Types[pk.Type]
	if t == nil || t.NewFunc == nil || pk.Def == nil || !pk.Def.ReadOnly {
		return nil
	}
	// the value as a sender holds it, with every union reduced to the one member it carries
	// (the constructor's arguments are plain Go values; reading them back applies the
	// receiver-side rule of exactly one member)
	v := val.Normalise(pk.B.Schema, schema.Type{Named: pk.Type}, *sc.Value)
	rec, err := n.fill(pk.B, pk.Type, v)
	if err != nil {
		return nil
	}
	rv := reflect.ValueOf(rec).Elem()
	fn := reflect.ValueOf(t.NewFunc)
	if fn.Kind() != reflect.Func || fn.Type().NumIn() != len(pk.Def.Fields) || rv.NumField() < len(pk.Def.Fields) {
		return mismatch("readonly-api|constructor-arity", fmt.Sprintf("New%s takes %d arguments, the struct has %d fields", pk.Type, fn.Type().NumIn(), rv.NumField()), nil)
	}
	args := make([]reflect.Value, len(pk.Def.Fields))
	for i := range args {
		args[i] = bridge.Field(rv, i)
	}
	var outs []reflect.Value
	cr := safeCall(0, 0, func() { outs = fn.Call(args) })
	if cr.Panicked {
		return &Violation{Class: "panic", Signature: "panic|readonly-api|constructor", Detail: cr.PanicText()}
	}
	built := reflect.New(outs[0].Type())
	built.Elem().Set(outs[0])
	tt := schema.Type{Named: pk.Type}
	got, err := bridge.FromGo(pk.B.Schema, tt, built.Elem(), nil)
	if err != nil {
		note(sc, "skipped", "bridge cannot read the constructed value: "+err.Error())
		return nil
	}
	want := val.Canon(pk.B.Schema, tt, v)
	if d := val.Diff(pk.B.Schema, tt, want, val.Canon(pk.B.Schema, tt, got)); d != "" {
		return mismatch("readonly-api|constructor|"+pathShape(d), "New"+pk.Type+"(fields...) built a different value: "+d, nil)
	}
	for i, f := range pk.Def.Fields {
		var m reflect.Value
		for _, name := range []string{"Get" + strings.ToUpper(f.Name[:1]) + f.Name[1:], "Get" + strings.ToLower(f.Name[:1]) + f.Name[1:]} {
			if m = built.MethodByName(name); m.IsValid() {
				break
			}
		}
		if !m.IsValid() {
			continue
		}
		var res []reflect.Value
		cr := safeCall(0, 0, func() { res = m.Call(nil) })
		if cr.Panicked {
			return &Violation{Class: "panic", Signature: "panic|readonly-api|getter", Detail: cr.PanicText()}
		}
		holder := reflect.New(res[0].Type()).Elem()
		holder.Set(res[0])
		gv, err := bridge.FromGo(pk.B.Schema, f.Type, holder, nil)
		if err != nil {
			continue
		}
		if d := val.Diff(pk.B.Schema, f.Type, val.Canon(pk.B.Schema, f.Type, want.Elems[i]), val.Canon(pk.B.Schema, f.Type, gv)); d != "" {
			return mismatch("readonly-api|getter", fmt.Sprintf("Get%s() of %s returned a different value: %s", f.Name, pk.Type, d), nil)
		}
	}
	return nil
}

func note(sc *Scenario, k, v string) {
	if sc.Extra == nil {
		sc.Extra = map[string]string{}
	}
	sc.Extra[k] = v
}

// receiver returns the build that decodes in this scenario.
func (n *Node) receiver(sc *Scenario) *Build {
	mask := sc.Mask
	if sc.PeerMask >= 0 {
		mask = sc.PeerMask
	}
	return n.Build(sc.Prog, mask, sc.OldPeer)
}

func execRoundTrip(n *Node, sc *Scenario) *Violation {
	if sc.Extra["api"] == "readonly" {
		return execReadOnlyAPI(n, sc)
	}
	v := execRoundTripInner(n, sc)
	if v != nil {
		if v.Facts == nil {
			v.Facts = map[string]string{}
		}
		v.Facts["decoder_path"] = "bytes"
		if isStreamDecoder(sc.Decoder) {
			v.Facts["decoder_path"] = "stream"
		}
		v.Facts["old_reader"] = fmt.Sprint(sc.OldPeer)
		v.Facts["skew"] = "false"
		if sc.OldPeer {
			if sb, rb := n.Build(sc.Prog, sc.Mask, false), n.receiver(sc); sb != nil && rb != nil {
				t := schema.Type{Named: sc.Type}
				want := val.Normalise(sb.Schema, t, *sc.Value)
				if val.HasSkew(sb.Schema, rb.Schema, t, want) {
					v.Facts["skew"] = "true"
				}
				v.Facts["skew_under_nested_struct"] = fmt.Sprint(val.SkewUnderNestedStruct(sb.Schema, rb.Schema, t, want))
			}
		}
	}
	return v
}

func execRoundTripInner(n *Node, sc *Scenario) *Violation {
	delete(sc.Extra, "skipped")
	sb := n.Build(sc.Prog, sc.Mask, false)
	rb := n.receiver(sc)
	if sb == nil || rb == nil {
		note(sc, "skipped", "build absent")
		return nil
	}
	t := schema.Type{Named: sc.Type}
	rec, err := n.fill(sb, sc.Type, *sc.Value)
	if err != nil {
		return mismatch("bridge|fill", err.Error(), nil)
	}
	want := val.Normalise(sb.Schema, t, *sc.Value)
	var data []byte
	if sc.Encoder == "reference" {
		// a conformant peer that is not this generator: map entries and message fields in
		// the order the scenario says
		data = refcodec.Encode(sb.Schema, t, permuteMaps(sb.Schema, t, want, sc.Order, 1))
	} else {
		eo := n.encode(rec, sc.Encoder, sc.Order, sc.Dirty, nil, sc.Writer)
		if v := callViolation(&eo.Call, sc, sb.Schema, sc.Encoder); v != nil {
			return v
		}
		if eo.Err != nil {
			return &Violation{Class: "mismatch", Signature: "mismatch|encode-error|" + sc.Encoder, Detail: "encoder failed on a healthy writer: " + eo.Err.Error()}
		}
		data = eo.Bytes
	}
	if sc.Again {
		// earlier calls of this process that failed: what they return is their business
		// (C07, C08), what they leave behind must not reach the decode that follows
		for _, pre := range [][]byte{nil, data[:len(data)/2], data[:len(data)*7/8]} {
			for _, dec := range []string{"decode", "unmarshal", "make"} {
				n.decode(rb, sc.Type, dec, pre, &simnet.Schedule{Name: "all"}, nil, sc.Reader, len(data))
			}
		}
	}
	do := n.decode(rb, sc.Type, sc.Decoder, data, sc.Sched, nil, sc.Reader, len(data))
	if do.NoSuch {
		note(sc, "skipped", "decoder not generated")
		return nil
	}
	if v := callViolation(&do.Call, sc, rb.Schema, sc.Decoder); v != nil {
		return v
	}
	if do.Err != nil {
		return &Violation{Class: "mismatch", Signature: "mismatch|decode-error|" + sc.Decoder + "|" + recordKind(rb.Schema, sc.Type),
			Detail: "decoder rejected a valid encoding: " + do.Err.Error(), Facts: map[string]string{"op": sc.Decoder}}
	}
	got, notes, err := n.readBack(rb, sc.Type, do.Rec)
	if err != nil {
		return mismatch("bridge|read|"+sc.Decoder, err.Error(), nil)
	}
	expect := want
	if sc.OldPeer {
		expect = val.Restrict(sb.Schema, rb.Schema, t, want)
	}
	if d := val.Diff(rb.Schema, t, expect, val.Canon(rb.Schema, t, got)); d != "" {
		return mismatch("value|"+sc.Decoder+"|"+pathShape(d)+"|"+diffWhat(d), fmt.Sprintf("%s -> %s: %s", sc.Encoder, sc.Decoder, d),
			map[string]string{"op": sc.Decoder, "path": pathShape(d)})
	}
	if notes.NonUTCDates > 0 {
		return mismatch("date-not-utc|"+sc.Decoder, "decoded date is not in UTC", nil)
	}
	// the decoded value is the caller's: unless the build shares string memory with its
	// input (that option says so), it must not change when the input buffer is used again
	if rb.Mask&2 == 0 {
		for i := range do.Buf {
			do.Buf[i] ^= 0xA5
		}
		for i := range data {
			data[i] ^= 0xA5
		}
		if again, _, err := n.readBack(rb, sc.Type, do.Rec); err == nil {
			if d := val.Diff(rb.Schema, t, expect, val.Canon(rb.Schema, t, again)); d != "" {
				return mismatch("aliases-input|"+sc.Decoder+"|"+pathShape(d), fmt.Sprintf("%s -> %s: the decoded value changed when the input buffer was overwritten afterwards: %s", sc.Encoder, sc.Decoder, d),
					map[string]string{"op": sc.Decoder, "path": pathShape(d)})
			}
		}
	}
	return nil
}

// ---------------------------------------------------------------------------------
// C02: all encoders emit the same bytes; Size() exact; MarshalBebopTo stays inside

func init() {
	props["C02"] = runC02
	execs["encoders"] = execEncoders
	execs["enchistory"] = execEncHistory
}

func runC02(c *Ctx) *Replay {
	cfg := val.DefaultCfg()
	cfg.WildDates = true // encoders are compared with each other only
	bare := c.R.Chance(1, 8)
	if bare {
		// unions with NO member set: a value Go code can hold and hand to the encoders (no
		// decoder accepts what they write, so only C02 can be asked about it)
		cfg.EmptyUnion = 25
		c.Count("runs_with_unpopulated_unions", 1)
	}
	pk := c.pickRecord(cfg)
	if pk == nil {
		c.Count("no_record", 1)
		return nil
	}
	v := pk.Gen.Record(pk.Type)
	shape := pk.B.Schema.DefShape(pk.Def, 0)
	c.Log("C02", pk.B.Name(), pk.Type)
	c.Sample(map[string]interface{}{"program": pk.B.Name(), "type": pk.Type, "shape": shape})
	fills := []string{"zero", "ff", "random"}
	for i := 0; i < 6; i++ {
		sc := Scenario{Kind: "encoders", Prog: pk.B.Prog.ID, Mask: pk.B.Mask, PeerMask: -1, Type: pk.Type, Value: &v}
		sc.Order = drawOrder(c.R)
		sc.Dirty = &Dirty{Fill: fills[i%3], Seed: c.R.Uint64()}
		if i >= 3 {
			sc.Dirty.Pad = c.R.Range(1, 33)
		}
		sc.Writer = writerKinds[c.R.Intn(len(writerKinds))]
		switch {
		case bare:
		case i == 1 || i == 4:
			sc.Extra = map[string]string{"origin": "decoded"}
			sc.Decoder = []string{"unmarshal", "unmarshal", "decode", "makefrombytes", "make"}[c.R.Intn(5)]
			if obs := c.N.OldOf[pk.B.Prog.ID]; i == 4 && len(obs) > 0 {
				if ob := obs[c.R.Intn(len(obs))]; ob.Types[pk.Type] != nil {
					sc.OldPeer, sc.PeerMask = true, ob.Mask
				}
			}
		case i == 2:
			if pk.Def.ReadOnly {
				sc.Extra = map[string]string{"origin": "constructed"}
			}
		}
		viol := execEncoders(c.N, &sc)
		c.Count("evaluations", 1)
		c.Count("origin:"+sc.Extra["origin"]+sc.Extra["grown"], 1)
		if sc.Extra["skipped"] != "" {
			c.Count("origin_skipped", 1)
		}
		c.Count("fill:"+sc.Dirty.Fill, 1)
		if sc.Dirty.Pad > 0 {
			c.Count("padded", 1)
		}
		c.State("c02", shape, sc.Dirty.Fill, fmt.Sprint(sc.Dirty.Pad > 0), fmt.Sprint(sc.Order.Strategy))
		c.Log(i, viol == nil)
		if viol != nil {
			return c.shrinkAndReport(&sc, viol)
		}
	}
	// a HISTORY of encodes: several records, two destinations, writers the caller keeps,
	// a second caller overtaking at a Write
	if !bare && c.R.Chance(1, 2) {
		hs := c.encHistory(pk)
		viol := execEncHistory(c.N, hs)
		c.Count("evaluations", 1)
		c.Count("enc_histories", 1)
		nested := 0
		for _, op := range hs.EncOps {
			if op.Inner != nil {
				nested++
			}
		}
		c.Count("enc_overlaps", int64(nested))
		c.State("c02h", shape, fmt.Sprint(len(hs.EncOps)), fmt.Sprint(nested))
		if viol != nil {
			return c.shrinkAndReport(hs, viol)
		}
	}
	return nil
}

// encHistory draws a history of EncodeBebop calls onto two destinations: 2-5 records of the
// program, plain and caller-held ErrorWriters, and now and then a second caller's encode
// that overtakes the first at one of its Write calls.
func (c *Ctx) encHistory(pk *pick) *Scenario {
	b := pk.B
	sc := &Scenario{Kind: "enchistory", Prog: b.Prog.ID, Mask: b.Mask, PeerMask: -1, Type: pk.Type, Order: drawOrder(c.R)}
	recs := b.Schema.Records()
	for i, n := 0, c.R.Range(2, 5); i < n; i++ {
		typ := pk.Type
		if c.R.Chance(1, 2) {
			d := recs[c.R.Intn(len(recs))]
			if b.Types[d.Name] != nil && pk.Gen.Inhabited(d.Name) {
				typ = d.Name
			}
		}
		sc.Types = append(sc.Types, typ)
		sc.Values = append(sc.Values, pk.Gen.Record(typ))
	}
	for i := range sc.Values {
		op := proto.EncOp{Rec: i, Dest: c.R.Intn(2), Held: c.R.Chance(1, 2)}
		if i+1 < len(sc.Values) && c.R.Chance(1, 3) {
			// the next record is encoded by another caller while this encode is inside a Write
			op.At = c.R.Range(1, 6)
			if c.R.Chance(1, 4) {
				op.At = 1 << 20 // "the last Write": clamped by the executor
			}
			op.Inner = &proto.EncOp{Rec: i + 1, Dest: 1 - op.Dest, Held: c.R.Chance(1, 2)}
			sc.EncOps = append(sc.EncOps, op)
			i++
			continue
		}
		sc.EncOps = append(sc.EncOps, op)
	}
	return sc
}

func execEncHistory(n *Node, sc *Scenario) *Violation {
	b := n.Build(sc.Prog, sc.Mask, false)
	if b == nil {
		note(sc, "skipped", "build absent")
		return nil
	}
	simrt.ResetPools()
	var recs []reg.Record
	var want [][]byte
	for i := range sc.Values {
		rec, err := n.fill(b, sc.Types[i], sc.Values[i])
		if err != nil {
			return mismatch("bridge|fill", err.Error(), nil)
		}
		m := n.encode(rec, "marshal", sc.Order, nil, nil, "")
		if v := callViolation(&m.Call, sc, b.Schema, "marshal"); v != nil {
			return v
		}
		recs = append(recs, rec)
		want = append(want, m.Bytes)
	}
	sinks := [2]*simnet.Sink{simnet.NewSink(nil), simnet.NewSink(nil)}
	var held [2]io.Writer
	for d := range held {
		held[d] = iohelp.NewErrorWriter(struct{ io.Writer }{sinks[d]})
	}
	var expect [2][]byte
	var viol *Violation
	simrt.SetMapOrder(sc.Order.Strategy, sc.Order.Seed)
	defer simrt.SetMapOrder(simrt.OrderNative, 0)
	var run func(op *proto.EncOp, depth int)
	run = func(op *proto.EncOp, depth int) {
		if viol != nil || op.Rec >= len(recs) || op.Dest < 0 || op.Dest > 1 {
			return
		}
		kind := recordKind(b.Schema, sc.Types[op.Rec])
		var w io.Writer = struct{ io.Writer }{sinks[op.Dest]}
		if op.Held {
			w = held[op.Dest]
		}
		sink := sinks[op.Dest]
		start := len(sink.Calls)
		fired := false
		if op.Inner != nil && depth == 0 && op.Inner.Dest != op.Dest {
			// how many Write calls the encode makes is not known in advance: "at or after the
			// At-th" is decided per call, the last chance being the final byte of the record
			total := len(expect[op.Dest]) + len(want[op.Rec])
			sink.Hook = func(call int) {
				if fired {
					return
				}
				if call-start >= op.At || len(sink.Buf) >= total-1 {
					fired = true
					run(op.Inner, depth+1)
				}
			}
		}
		var err error
		cr := safeCall(0, 0, func() { err = recs[op.Rec].EncodeBebop(w) })
		sink.Hook = nil
		expect[op.Dest] = append(expect[op.Dest], want[op.Rec]...)
		if viol != nil {
			return
		}
		if v := callViolation(&cr, sc, b.Schema, "encode"); v != nil {
			viol = v
			return
		}
		if err != nil {
			viol = mismatch("enc-history-error|"+kind, fmt.Sprintf("EncodeBebop of record %d (%s) onto a healthy writer failed: %v", op.Rec, sc.Types[op.Rec], err), map[string]string{"record_kind": kind})
			return
		}
		if op.Inner != nil && depth == 0 && !fired {
			run(op.Inner, depth+1) // the record made no Write at all: the other caller runs afterwards
		}
	}
	for i := range sc.EncOps {
		run(&sc.EncOps[i], 0)
	}
	if viol != nil {
		return viol
	}
	for d := range sinks {
		if !bytes.Equal(sinks[d].Buf, expect[d]) {
			return mismatch("enc-history-bytes", fmt.Sprintf("destination %d holds %d bytes, the records encoded onto it are %d bytes (MarshalBebop); first difference at %d", d, len(sinks[d].Buf), len(expect[d]), firstDiff(sinks[d].Buf, expect[d])),
				map[string]string{"op": "encode"})
		}
	}
	return nil
}

func execEncoders(n *Node, sc *Scenario) *Violation {
	b := n.Build(sc.Prog, sc.Mask, false)
	if b == nil {
		note(sc, "skipped", "build absent")
		return nil
	}
	t := schema.Type{Named: sc.Type}
	kind := recordKind(b.Schema, sc.Type)
	rec, err := n.fill(b, sc.Type, *sc.Value)
	if err != nil {
		return mismatch("bridge|fill", err.Error(), nil)
	}
	// how the value came to be: C02 speaks of every record value, also of those a decoder
	// produced or a constructor built from data the caller still holds and changes
	switch sc.Extra["origin"] {
	case "decoded":
		rb := n.receiver(sc)
		if rb == nil {
			note(sc, "skipped", "build absent")
			return nil
		}
		// what a conformant peer sends: fields this reader calls deprecated included; with
		// an older reader, fields and members it does not know
		wire := refcodec.Encode(b.Schema, t, val.Canon(b.Schema, t, *sc.Value))
		dec := sc.Decoder
		if rb.Mask&2 != 0 && !isStreamDecoder(dec) {
			// this build's byte-slice decoders return values that share memory with their
			// input (the option says so), and the harness uses that buffer again
			dec = "decode"
		}
		do := n.decode(rb, sc.Type, dec, wire, &simnet.Schedule{Name: "all"}, nil, "plain", len(wire))
		if do.NoSuch || do.Call.Panicked || do.Call.Sentinel != nil || do.Err != nil || do.Rec == nil {
			note(sc, "skipped", "decoder absent or failed (judged by C01/C04)")
			return nil
		}
		rec, b = do.Rec, rb
		kind = recordKind(b.Schema, sc.Type)
	case "constructed":
		tt, def := b.Types[sc.Type], b.Schema.Lookup(sc.Type)
		if tt == nil || tt.NewFunc == nil || def == nil || !def.ReadOnly {
			note(sc, "skipped", "no constructor")
			return nil
		}
		rv := reflect.ValueOf(rec).Elem()
		fn := reflect.ValueOf(tt.NewFunc)
		if fn.Kind() != reflect.Func || fn.Type().NumIn() != len(def.Fields) || rv.NumField() < len(def.Fields) {
			note(sc, "skipped", "constructor arity (judged by C01)")
			return nil
		}
		args := make([]reflect.Value, len(def.Fields))
		for i := range args {
			args[i] = bridge.Field(rv, i)
		}
		var outs []reflect.Value
		if cr := safeCall(0, 0, func() { outs = fn.Call(args) }); cr.Panicked || len(outs) != 1 {
			note(sc, "skipped", "constructor failed (judged by C01)")
			return nil
		}
		built := reflect.New(outs[0].Type())
		built.Elem().Set(outs[0])
		br, ok := built.Interface().(reg.Record)
		if !ok {
			note(sc, "skipped", "constructed value is no record")
			return nil
		}
		// the caller changes what it handed in and still holds (readonly is shallow)
		note(sc, "grown", "0")
		for _, a := range args {
			if bridge.GrowShared(a) {
				note(sc, "grown", "1")
				break
			}
		}
		rec = br
	}
	m := n.encode(rec, "marshal", sc.Order, nil, nil, "")
	if v := callViolation(&m.Call, sc, b.Schema, "marshal"); v != nil {
		return v
	}
	if len(m.Bytes) != m.Size {
		return mismatch("size|marshal|"+kind, fmt.Sprintf("len(MarshalBebop())=%d but Size()=%d", len(m.Bytes), m.Size), nil)
	}
	mt := n.encode(rec, "marshalto", sc.Order, sc.Dirty, nil, "")
	if v := callViolation(&mt.Call, sc, b.Schema, "marshalto"); v != nil {
		v.Facts["pad"] = fmt.Sprint(sc.Dirty.Pad)
		return v
	}
	if mt.RetN != mt.Size {
		return mismatch("marshalto-return|"+kind, fmt.Sprintf("MarshalBebopTo returned %d, Size() is %d", mt.RetN, mt.Size), map[string]string{"record_kind": kind})
	}
	if !bytes.Equal(mt.Bytes, m.Bytes) {
		at := firstDiff(mt.Bytes, m.Bytes)
		where := "inside"
		if at == len(m.Bytes)-1 {
			where = "last-byte"
		}
		return mismatch("marshalto-bytes|"+kind+"|"+where, fmt.Sprintf("MarshalBebopTo into a %s-filled buffer differs from MarshalBebop at byte %d of %d", sc.Dirty.Fill, at, len(m.Bytes)),
			map[string]string{"record_kind": kind, "where": where})
	}
	if sc.Dirty.Pad > 0 {
		ref := fillBytes(mt.Size+sc.Dirty.Pad, sc.Dirty)
		if !bytes.Equal(mt.Buffer[mt.Size:], ref[mt.Size:]) {
			return &Violation{Class: "outside-write", Signature: "outside-write|marshalto|" + kind,
				Detail: fmt.Sprintf("MarshalBebopTo changed bytes beyond Size()=%d (first at +%d)", mt.Size, firstDiff(mt.Buffer[mt.Size:], ref[mt.Size:]))}
		}
	}
	e := n.encode(rec, "encode", sc.Order, nil, nil, sc.Writer)
	if v := callViolation(&e.Call, sc, b.Schema, "encode"); v != nil {
		return v
	}
	if e.Err != nil {
		return mismatch("encode-error", "EncodeBebop failed on a healthy writer: "+e.Err.Error(), nil)
	}
	if !bytes.Equal(e.Bytes, m.Bytes) {
		return mismatch("encode-bytes|"+kind, fmt.Sprintf("EncodeBebop wrote %d bytes, MarshalBebop %d; first difference at %d", len(e.Bytes), len(m.Bytes), firstDiff(e.Bytes, m.Bytes)),
			map[string]string{"record_kind": kind})
	}
	// a different map order must give the same content
	other := MapOrder{Strategy: simrt.OrderShuffle, Seed: sc.Order.Seed ^ 0x5bd1e995}
	if sc.Order.Strategy == simrt.OrderShuffle {
		other = MapOrder{Strategy: simrt.OrderReverse}
	}
	m2 := n.encode(rec, "marshal", other, nil, nil, "")
	if v := callViolation(&m2.Call, sc, b.Schema, "marshal"); v != nil {
		return v
	}
	if len(m2.Bytes) != len(m.Bytes) {
		return mismatch("order-length|"+kind, fmt.Sprintf("encoding length depends on map order: %d vs %d", len(m.Bytes), len(m2.Bytes)), nil)
	}
	v1, _, err1 := refcodec.Decode(b.Schema, t, m.Bytes)
	v2, _, err2 := refcodec.Decode(b.Schema, t, m2.Bytes)
	if err1 == nil && err2 == nil {
		if d := val.Diff(b.Schema, t, val.Normalise(b.Schema, t, v1), val.Normalise(b.Schema, t, v2)); d != "" {
			return mismatch("order-content|"+kind, "content depends on map order: "+d, nil)
		}
	}
	return nil
}

// ---------------------------------------------------------------------------------
// C03: wire format against the reference codec, both directions

func init() {
	props["C03"] = runC03
	execs["wire"] = execWire
}

func runC03(c *Ctx) *Replay {
	cfg := val.DefaultCfg()
	pk := c.pickRecord(cfg)
	if pk == nil {
		c.Count("no_record", 1)
		return nil
	}
	v := pk.Gen.Record(pk.Type)
	shape := pk.B.Schema.DefShape(pk.Def, 0)
	c.Log("C03", pk.B.Name(), pk.Type)
	c.Sample(map[string]interface{}{"program": pk.B.Name(), "type": pk.Type, "shape": shape})
	// monitor direction: every encoder
	for _, e := range allEncoders {
		sc := Scenario{Kind: "wire", Prog: pk.B.Prog.ID, Mask: pk.B.Mask, PeerMask: -1, Type: pk.Type, Value: &v, Encoder: e, Order: drawOrder(c.R)}
		if e == "marshalto" {
			sc.Dirty = drawDirty(c.R)
		}
		viol := execWire(c.N, &sc)
		c.Count("evaluations", 1)
		c.Count("monitor:"+e, 1)
		c.State("c03m", shape, e)
		c.Log(e, viol == nil)
		if viol != nil {
			return c.shrinkAndReport(&sc, viol)
		}
	}
	// reference peer direction: permuted map entries, every decoder
	for _, d := range []string{"unmarshal", "decode", "mustunmarshal"} {
		for k := 0; k < 3; k++ {
			sc := Scenario{Kind: "wire", Prog: pk.B.Prog.ID, Mask: pk.B.Mask, PeerMask: -1, Type: pk.Type, Value: &v, Encoder: "reference", Decoder: d}
			sc.Order = MapOrder{Strategy: simrt.OrderShuffle, Seed: c.R.Uint64(), Fields: k == 2}
			if k == 0 {
				sc.Order = MapOrder{Strategy: simrt.OrderReverse, Fields: c.R.Bool()}
			}
			if d == "decode" {
				sc.Sched = drawSchedule(c.R, 0, nil)
				sc.Reader = readerKinds[c.R.Intn(len(readerKinds))]
			}
			viol := execWire(c.N, &sc)
			if sc.Extra["skipped"] != "" {
				continue
			}
			c.Count("evaluations", 1)
			c.Count("refpeer:"+d, 1)
			c.State("c03p", shape, d)
			c.Log(d, k, viol == nil)
			if viol != nil {
				return c.shrinkAndReport(&sc, viol)
			}
		}
	}
	// a caller that keeps ONE ErrorWriter / ErrorReader for a sequence of records and does
	// unrelated stream calls on other destinations in between: every record of the
	// sequence is still its wire encoding, every conformant encoding still yields its value
	if c.R.Chance(1, 3) {
		sc := Scenario{Kind: "wireheld", Prog: pk.B.Prog.ID, Mask: pk.B.Mask, PeerMask: -1, Type: pk.Type, Value: &v,
			Order: MapOrder{Strategy: simrt.OrderShuffle, Seed: c.R.Uint64()}, Sched: drawSchedule(c.R, 0, nil), Decoder: []string{"decode", "make"}[c.R.Intn(2)], Reader: readerKinds[c.R.Intn(len(readerKinds))]}
		viol := execWireHeld(c.N, &sc)
		c.Count("evaluations", 1)
		c.Count("held_sessions", 1)
		c.State("c03h", shape, sc.Decoder)
		if viol != nil {
			return c.shrinkAndReport(&sc, viol)
		}
	}
	return nil
}

func init() { execs["wireheld"] = execWireHeld }

func execWireHeld(n *Node, sc *Scenario) *Violation {
	b := n.Build(sc.Prog, sc.Mask, false)
	if b == nil {
		note(sc, "skipped", "build absent")
		return nil
	}
	tt, _, err := n.typeOf(b, sc.Type)
	if err != nil {
		note(sc, "skipped", "no such type")
		return nil
	}
	t := schema.Type{Named: sc.Type}
	kind := recordKind(b.Schema, sc.Type)
	want := val.Normalise(b.Schema, t, *sc.Value)
	rec, err := n.fill(b, sc.Type, *sc.Value)
	if err != nil {
		return mismatch("bridge|fill", err.Error(), nil)
	}
	data := refcodec.Encode(b.Schema, t, permuteMaps(b.Schema, t, want, sc.Order, 1))
	alloc, steps := budgetsFor(b.Schema, 2*len(data))
	simrt.SetMapOrder(simrt.OrderCanonical, 0)
	defer simrt.SetMapOrder(simrt.OrderNative, 0)
	// somebody else's stream traffic, on a reader and a writer of its own
	other := func() {
		n.decode(b, sc.Type, "decode", data, &simnet.Schedule{Name: "all"}, nil, "plain", len(data))
		n.encode(rec, "encode", sc.Order, nil, nil, "plain")
		simrt.SetMapOrder(simrt.OrderCanonical, 0)
	}
	// encoder side
	sink := simnet.NewSink(nil)
	w := iohelp.NewErrorWriter(struct{ io.Writer }{sink})
	for i := 0; i < 3; i++ {
		var eerr error
		cr := safeCall(alloc, steps, func() { eerr = rec.EncodeBebop(w) })
		if v := callViolation(&cr, sc, b.Schema, "encode"); v != nil {
			return v
		}
		if eerr != nil {
			return mismatch("wireheld|encode-error|"+kind, fmt.Sprintf("EncodeBebop number %d onto the caller's healthy ErrorWriter failed: %v", i+1, eerr), map[string]string{"op": "encode", "record_kind": kind})
		}
		other()
	}
	rest := sink.Buf
	for i := 0; i < 3; i++ {
		got, m, derr := refcodec.Decode(b.Schema, t, rest)
		if derr != nil {
			return mismatch("wireheld|encode|"+kind+"|rejected", fmt.Sprintf("record %d of 3 written through one ErrorWriter is not a conformant encoding (%d bytes on the destination, %d left): %v", i+1, len(sink.Buf), len(rest), derr), map[string]string{"op": "encode", "record_kind": kind})
		}
		if d := val.Diff(b.Schema, t, want, val.Normalise(b.Schema, t, got)); d != "" {
			return mismatch("wireheld|encode|"+kind+"|value", fmt.Sprintf("record %d of 3 written through one ErrorWriter decodes to another value: %s", i+1, d), map[string]string{"op": "encode", "record_kind": kind})
		}
		rest = rest[m:]
	}
	if len(rest) != 0 {
		return mismatch("wireheld|encode|"+kind+"|length", fmt.Sprintf("%d bytes beyond the three records on the destination", len(rest)), map[string]string{"op": "encode", "record_kind": kind})
	}
	// decoder side: three conformant encodings on one stream, one ErrorReader
	var stream []byte
	for i := 0; i < 3; i++ {
		stream = append(stream, data...)
	}
	s := simnet.Schedule{}
	if sc.Sched != nil {
		s = *sc.Sched
	}
	link := simnet.NewLink(stream, s, nil)
	r := iohelp.NewErrorReader(struct{ io.Reader }{link})
	for i := 0; i < 3; i++ {
		var got reg.Record
		var derr error
		cr := safeCall(alloc, steps, func() {
			if sc.Decoder == "make" && tt.Make != nil {
				got, derr = tt.Make(r)
			} else {
				got = tt.New()
				derr = got.DecodeBebop(r)
			}
		})
		if v := callViolation(&cr, sc, b.Schema, sc.Decoder); v != nil {
			return v
		}
		if derr != nil {
			return mismatch("wireheld|refpeer-rejected|"+kind, fmt.Sprintf("conformant encoding %d of 3 on the caller's ErrorReader was rejected: %v", i+1, derr), map[string]string{"op": sc.Decoder, "record_kind": kind})
		}
		gv, _, err := n.readBack(b, sc.Type, got)
		if err != nil {
			return mismatch("bridge|read", err.Error(), nil)
		}
		if d := val.Diff(b.Schema, t, want, val.Canon(b.Schema, t, gv)); d != "" {
			return mismatch("wireheld|refpeer-value|"+kind+"|"+pathShape(d), fmt.Sprintf("conformant encoding %d of 3 on the caller's ErrorReader gave another value: %s", i+1, d), map[string]string{"op": sc.Decoder, "record_kind": kind})
		}
		other()
	}
	// the same three encodings behind each other on a stream the caller hands to
	// DecodeBebop AS IT IS, call after call (no ErrorReader of its own): each call finds a
	// conformant encoding at the reader's position
	link2 := simnet.NewLink(stream, s, nil)
	rw := wrapReader(sc.Reader, link2)
	for i := 0; i < 3; i++ {
		got := tt.New()
		var derr error
		cr := safeCall(alloc, steps, func() { derr = got.DecodeBebop(rw.r) })
		if v := callViolation(&cr, sc, b.Schema, "decode"); v != nil {
			return v
		}
		if derr != nil {
			return mismatch("wireheld|refpeer-rejected|plain-stream|"+kind, fmt.Sprintf("conformant encoding %d of 3 on the caller's %s reader was rejected: %v", i+1, sc.Reader, derr), map[string]string{"op": "decode", "record_kind": kind})
		}
		gv, _, err := n.readBack(b, sc.Type, got)
		if err != nil {
			return mismatch("bridge|read", err.Error(), nil)
		}
		if d := val.Diff(b.Schema, t, want, val.Canon(b.Schema, t, gv)); d != "" {
			return mismatch("wireheld|refpeer-value|plain-stream|"+kind+"|"+pathShape(d), fmt.Sprintf("conformant encoding %d of 3 on the caller's %s reader gave another value: %s", i+1, sc.Reader, d), map[string]string{"op": "decode", "record_kind": kind})
		}
	}
	return nil
}

// permuteMaps reorders the entries of every map in v deterministically from (strategy, seed).
func permuteMaps(s *schema.Schema, t schema.Type, v val.Value, o MapOrder, depth uint64) val.Value {
	switch {
	case t.Array != nil:
		out := v
		out.Elems = make([]val.Value, len(v.Elems))
		for i, e := range v.Elems {
			out.Elems[i] = permuteMaps(s, *t.Array, e, o, depth*31+uint64(i)+1)
		}
		return out
	case t.MapV != nil:
		n := len(v.Keys)
		perm := make([]int, n)
		for i := range perm {
			perm[i] = i
		}
		switch o.Strategy {
		case simrt.OrderReverse:
			for i, j := 0, n-1; i < j; i, j = i+1, j-1 {
				perm[i], perm[j] = perm[j], perm[i]
			}
		case simrt.OrderRotate:
			if n > 1 {
				perm = append(perm[1:], perm[0])
			}
		case simrt.OrderShuffle:
			perm = prng.New(o.Seed ^ (depth * 0x9e3779b97f4a7c15)).Perm(n)
		}
		out := val.Reorder(v, perm)
		for i := range out.Vals {
			out.Vals[i] = permuteMaps(s, *t.MapV, out.Vals[i], o, depth*31+uint64(i)+7)
		}
		return out
	case t.Prim != "":
		return v
	}
	d := s.Lookup(t.Named)
	if d == nil {
		return v
	}
	out := v
	switch d.Kind {
	case schema.KStruct:
		out.Elems = make([]val.Value, len(v.Elems))
		for i, f := range d.Fields {
			if i < len(v.Elems) {
				out.Elems[i] = permuteMaps(s, f.Type, v.Elems[i], o, depth*31+uint64(i)+3)
			}
		}
	case schema.KMessage:
		out.Fields = make([]val.MsgField, len(v.Fields))
		for i, mf := range v.Fields {
			out.Fields[i] = mf
			if fd := val.MsgFieldDef(d, mf.Index); fd != nil {
				out.Fields[i].V = permuteMaps(s, fd.Type, mf.V, o, depth*31+uint64(mf.Index))
			}
		}
		if n := len(out.Fields); o.Fields && n > 1 {
			switch o.Strategy {
			case simrt.OrderRotate:
				out.Fields = append(out.Fields[1:], out.Fields[0])
			case simrt.OrderShuffle:
				pm := prng.New(o.Seed ^ (depth * 0x2545f4914f6cdd1d)).Perm(n)
				sh := make([]val.MsgField, n)
				for i, k := range pm {
					sh[i] = out.Fields[k]
				}
				out.Fields = sh
			default:
				for i, j := 0, n-1; i < j; i, j = i+1, j-1 {
					out.Fields[i], out.Fields[j] = out.Fields[j], out.Fields[i]
				}
			}
		}
	case schema.KUnion:
		if v.Body != nil {
			for _, br := range d.Branches {
				if br.Disc == v.Disc {
					nb := permuteMaps(s, schema.Type{Named: br.Def.Name}, *v.Body, o, depth*31+uint64(v.Disc))
					out.Body = &nb
				}
			}
		}
	}
	return out
}

func execWire(n *Node, sc *Scenario) *Violation {
	delete(sc.Extra, "skipped")
	b := n.Build(sc.Prog, sc.Mask, false)
	if b == nil {
		note(sc, "skipped", "build absent")
		return nil
	}
	t := schema.Type{Named: sc.Type}
	kind := recordKind(b.Schema, sc.Type)
	want := val.Normalise(b.Schema, t, *sc.Value)
	if sc.Encoder != "reference" {
		rec, err := n.fill(b, sc.Type, *sc.Value)
		if err != nil {
			return mismatch("bridge|fill", err.Error(), nil)
		}
		eo := n.encode(rec, sc.Encoder, sc.Order, sc.Dirty, nil, "")
		if v := callViolation(&eo.Call, sc, b.Schema, sc.Encoder); v != nil {
			return v
		}
		if eo.Err != nil {
			return mismatch("encode-error", eo.Err.Error(), nil)
		}
		if why := refRoundTrip(b.Schema, sc.Type, eo.Bytes, want); why != "" {
			return mismatch("wire|"+sc.Encoder+"|"+kind+"|"+wireWhy(why), sc.Encoder+": "+why, map[string]string{"record_kind": kind, "op": sc.Encoder})
		}
		return nil
	}
	// reference peer sends, generated decoder receives
	sent := permuteMaps(b.Schema, t, want, sc.Order, 1)
	data := refcodec.Encode(b.Schema, t, sent)
	do := n.decode(b, sc.Type, sc.Decoder, data, sc.Sched, nil, sc.Reader, len(data))
	if do.NoSuch {
		note(sc, "skipped", "decoder not generated")
		return nil
	}
	if v := callViolation(&do.Call, sc, b.Schema, sc.Decoder); v != nil {
		return v
	}
	if do.Err != nil {
		return mismatch("refpeer-rejected|"+sc.Decoder+"|"+kind, "decoder rejected a conformant encoding: "+do.Err.Error(), map[string]string{"op": sc.Decoder})
	}
	got, _, err := n.readBack(b, sc.Type, do.Rec)
	if err != nil {
		return mismatch("bridge|read", err.Error(), nil)
	}
	if d := val.Diff(b.Schema, t, want, val.Canon(b.Schema, t, got)); d != "" {
		return mismatch("refpeer-value|"+sc.Decoder+"|"+pathShape(d)+"|"+diffWhat(d), "reference -> "+sc.Decoder+": "+d, map[string]string{"op": sc.Decoder, "path": pathShape(d)})
	}
	return nil
}

func wireWhy(why string) string {
	switch {
	case len(why) > 30 && why[:30] == "reference decoder rejects the ":
		return "rejected"
	case len(why) > 26 && why[:26] == "reference decoder consumed":
		return "length"
	case len(why) > 27 && why[:27] == "reference decoding differs ":
		d := why[len("reference decoding differs from the value sent: "):]
		return "value|" + pathShape(d) + "|" + diffWhat(d)
	}
	return "noncanonical"
}
