package harness

import (
	"bytes"
	"fmt"
	"io"
	"math"
	"sort"
	"time"

	"github.com/200sc/bebop/iohelp"

	"verif/pkg/prng"
	"verif/pkg/refcodec"
	"verif/pkg/schema"
	"verif/pkg/simnet"
	"verif/pkg/val"
)

// C20: iohelp primitives are exact inverses, stream and slice variants agree with each
// other and with the reference layout, and a failed stream read never returns stale data.

func init() {
	props["C20"] = runC20
	execs["prims"] = execPrims
}

var primSchema = &schema.Schema{Name: "prims"}

// wireType maps the pseudo-primitive "bytes" (a byte array read with iohelp.ReadBytes: the
// same wire form as a string, but handed out also after a failed read) to its wire type.
func wireType(p string) string {
	if p == "bytes" {
		return "string"
	}
	return p
}

// c20Prims are the primitives of the multi-primitive streams.
var c20Prims = append(append([]string{}, schema.Primitives...), "bytes")

func primEncode(p string, v val.Value) []byte {
	return refcodec.Encode(primSchema, schema.Type{Prim: wireType(p)}, v)
}

func primWidth(p string, v val.Value) int {
	if p == "string" || p == "bytes" {
		return 4 + len(v.B)
	}
	return schema.PrimSize(p)
}

func goTime(d *val.Date) time.Time {
	if d == nil || d.Zero {
		return time.Time{}
	}
	return time.Unix(0, d.Nanos).UTC()
}

func guidArr(b []byte) (g [16]byte) {
	copy(g[:], b)
	return
}

// writeStream writes v through the stream helper.
func writeStream(w *iohelp.ErrorWriter, p string, v val.Value) {
	switch p {
	case "bool":
		iohelp.WriteBool(w, v.U != 0)
	case "byte":
		iohelp.WriteByte(w, byte(v.U))
	case "uint8":
		iohelp.WriteUint8(w, uint8(v.U))
	case "uint16":
		iohelp.WriteUint16(w, uint16(v.U))
	case "int16":
		iohelp.WriteInt16(w, int16(v.U))
	case "uint32":
		iohelp.WriteUint32(w, uint32(v.U))
	case "int32":
		iohelp.WriteInt32(w, int32(v.U))
	case "uint64":
		iohelp.WriteUint64(w, v.U)
	case "int64":
		iohelp.WriteInt64(w, int64(v.U))
	case "float32":
		iohelp.WriteFloat32(w, math.Float32frombits(uint32(v.U)))
	case "float64":
		iohelp.WriteFloat64(w, math.Float64frombits(v.U))
	case "guid":
		iohelp.WriteGUID(w, guidArr(v.B))
	case "date":
		// the generated code writes dates as int64 ticks
		iohelp.WriteInt64(w, v.Date.Ticks())
	case "string", "bytes":
		iohelp.WriteUint32(w, uint32(len(v.B)))
		w.Write(v.B)
	}
}

// writeSlice writes v through the byte-slice helper into an exact-width guarded buffer.
func writeSlice(g *guardBuf, p string, v val.Value) []byte {
	buf := g.place(make([]byte, primWidth(p, v)))
	writeSliceInto(buf, p, v)
	return append([]byte(nil), buf...)
}

// writeSliceInto writes v through the byte-slice helper into buf.
func writeSliceInto(buf []byte, p string, v val.Value) {
	switch p {
	case "bool":
		iohelp.WriteBoolBytes(buf, v.U != 0)
	case "byte":
		iohelp.WriteByteBytes(buf, byte(v.U))
	case "uint8":
		iohelp.WriteUint8Bytes(buf, uint8(v.U))
	case "uint16":
		iohelp.WriteUint16Bytes(buf, uint16(v.U))
	case "int16":
		iohelp.WriteInt16Bytes(buf, int16(v.U))
	case "uint32":
		iohelp.WriteUint32Bytes(buf, uint32(v.U))
	case "int32":
		iohelp.WriteInt32Bytes(buf, int32(v.U))
	case "uint64":
		iohelp.WriteUint64Bytes(buf, v.U)
	case "int64":
		iohelp.WriteInt64Bytes(buf, int64(v.U))
	case "float32":
		iohelp.WriteFloat32Bytes(buf, math.Float32frombits(uint32(v.U)))
	case "float64":
		iohelp.WriteFloat64Bytes(buf, math.Float64frombits(v.U))
	case "guid":
		iohelp.WriteGUIDBytes(buf, guidArr(v.B))
	case "date":
		iohelp.WriteInt64Bytes(buf, v.Date.Ticks())
	case "string", "bytes":
		iohelp.WriteUint32Bytes(buf, uint32(len(v.B)))
		copy(buf[4:], v.B)
	}
}

// execShortView: the byte-slice helpers on a slice that is SHORTER than the value but has
// spare capacity behind it (a view into a larger, used buffer: a pooled receive buffer cut
// to what arrived, a slot of an arena). The capacity holds a complete encoding, so a helper
// that looks beyond len returns "valid" data that is not in the buffer; a writer that does
// so overwrites its neighbour. Unchecked helpers have to panic, checked ones to fail.
func execShortView(n *Node, sc *Scenario) *Violation {
	p := sc.Types[0]
	v := sc.Values[0]
	full := primEncode(p, v)
	k := sc.Cut
	if k >= len(full) {
		k = len(full) - 1
	}
	if k < 0 {
		return nil
	}
	const lead = 8
	arena := make([]byte, lead+len(full)+16)
	for i := range arena {
		arena[i] = byte(taintLo + i%(taintHi-taintLo+1))
	}
	copy(arena[lead:], full)
	view := arena[lead : lead+k : len(arena)]
	var err error
	cr := safeCall(1<<20, 1<<20, func() { _, err = readSlice(view, p) })
	if !cr.Panicked && err == nil {
		return &Violation{Class: "stale-data", Signature: "stale|short-view|read|" + p,
			Detail: fmt.Sprintf("Read%sBytes on a %d-byte slice (value needs %d; capacity %d) returned a value and no error: it is made of bytes outside the slice", p, k, len(full), cap(view))}
	}
	if p == "string" {
		return nil
	}
	for i := range arena {
		arena[i] = byte(taintLo + i%(taintHi-taintLo+1))
	}
	want := append([]byte(nil), arena...)
	safeCall(1<<20, 1<<20, func() { writeSliceInto(arena[lead:lead+k:len(arena)], p, v) })
	for i := range arena {
		if (i < lead || i >= lead+k) && arena[i] != want[i] {
			return &Violation{Class: "outside-write", Signature: "outside-write|short-view|" + p,
				Detail: fmt.Sprintf("Write%sBytes on a %d-byte slice (value needs %d) changed byte %+d relative to the slice: it wrote into its neighbour", p, k, len(full), i-lead)}
		}
	}
	return nil
}

// readStream reads one primitive; the result is returned as a value tree.
func readStream(r *iohelp.ErrorReader, p string) val.Value {
	switch p {
	case "bool":
		if iohelp.ReadBool(r) {
			return val.Value{U: 1}
		}
		return val.Value{}
	case "byte":
		return val.Value{U: uint64(iohelp.ReadByte(r))}
	case "uint8":
		return val.Value{U: uint64(iohelp.ReadUint8(r))}
	case "uint16":
		return val.Value{U: uint64(iohelp.ReadUint16(r))}
	case "int16":
		return val.Value{U: uint64(uint16(iohelp.ReadInt16(r)))}
	case "uint32":
		return val.Value{U: uint64(iohelp.ReadUint32(r))}
	case "int32":
		return val.Value{U: uint64(uint32(iohelp.ReadInt32(r)))}
	case "uint64":
		return val.Value{U: iohelp.ReadUint64(r)}
	case "int64":
		return val.Value{U: uint64(iohelp.ReadInt64(r))}
	case "float32":
		return val.Value{U: uint64(math.Float32bits(iohelp.ReadFloat32(r)))}
	case "float64":
		return val.Value{U: math.Float64bits(iohelp.ReadFloat64(r))}
	case "guid":
		g := iohelp.ReadGUID(r)
		return val.Value{B: g[:]}
	case "date":
		return dateValue(iohelp.ReadDate(r))
	case "string":
		return val.Value{B: []byte(iohelp.ReadString(r))}
	case "bytes":
		return val.Value{B: iohelp.ReadBytes(r)}
	}
	return val.Value{}
}

func dateValue(t time.Time) val.Value {
	if t.IsZero() {
		return val.Value{Date: &val.Date{Zero: true}}
	}
	return val.Value{Date: &val.Date{Nanos: t.UnixNano()}}
}

func readSlice(buf []byte, p string) (val.Value, error) {
	switch p {
	case "bool":
		if iohelp.ReadBoolBytes(buf) {
			return val.Value{U: 1}, nil
		}
		return val.Value{}, nil
	case "byte":
		return val.Value{U: uint64(iohelp.ReadByteBytes(buf))}, nil
	case "uint8":
		return val.Value{U: uint64(iohelp.ReadUint8Bytes(buf))}, nil
	case "uint16":
		return val.Value{U: uint64(iohelp.ReadUint16Bytes(buf))}, nil
	case "int16":
		return val.Value{U: uint64(uint16(iohelp.ReadInt16Bytes(buf)))}, nil
	case "uint32":
		return val.Value{U: uint64(iohelp.ReadUint32Bytes(buf))}, nil
	case "int32":
		return val.Value{U: uint64(uint32(iohelp.ReadInt32Bytes(buf)))}, nil
	case "uint64":
		return val.Value{U: iohelp.ReadUint64Bytes(buf)}, nil
	case "int64":
		return val.Value{U: uint64(iohelp.ReadInt64Bytes(buf))}, nil
	case "float32":
		return val.Value{U: uint64(math.Float32bits(iohelp.ReadFloat32Bytes(buf)))}, nil
	case "float64":
		return val.Value{U: math.Float64bits(iohelp.ReadFloat64Bytes(buf))}, nil
	case "guid":
		g := iohelp.ReadGUIDBytes(buf)
		return val.Value{B: g[:]}, nil
	case "date":
		return dateValue(iohelp.ReadDateBytes(buf)), nil
	case "string", "bytes":
		s, err := iohelp.ReadStringBytes(buf)
		return val.Value{B: []byte(s)}, err
	}
	return val.Value{}, nil
}

func primDiff(p string, want, got val.Value) string {
	p = wireType(p)
	return val.Diff(primSchema, schema.Type{Prim: p}, val.Normalise(primSchema, schema.Type{Prim: p}, want), val.Normalise(primSchema, schema.Type{Prim: p}, got))
}

const taintLo, taintHi = 0xA1, 0xAF

func tainted(b byte) bool { return b >= taintLo && b <= taintHi }

func taintBytes(r *prng.Rand, n int) []byte {
	b := make([]byte, n)
	for i := range b {
		b[i] = byte(taintLo + r.Intn(taintHi-taintLo+1))
	}
	return b
}

func leU64(b []byte) uint64 {
	var u uint64
	for i := 0; i < len(b) && i < 8; i++ {
		u |= uint64(b[i]) << (8 * uint(i))
	}
	return u
}

// drawPrim draws a value of primitive p; with taint every wire byte of it is from the
// taint alphabet (bool: true), so stale bytes are recognisable.
func drawPrim(r *prng.Rand, g *val.Gen, p string, taint bool) val.Value {
	if !taint {
		if p == "bytes" && r.Chance(1, 6) {
			return val.Value{B: r.Bytes([]int{65535, 65536, 65537, 70000, 131072, 140001}[r.Intn(6)])}
		}
		return g.Type(schema.Type{Prim: wireType(p)}, 0)
	}
	switch p {
	case "bool":
		return val.Value{U: 1}
	case "bytes":
		if r.Chance(1, 3) {
			// beyond 64 KiB the stream readers fetch a payload in several steps
			return val.Value{B: taintBytes(r, []int{65535, 65536, 65537, 70000, 131072, 131073, 200000}[r.Intn(7)])}
		}
		if r.Chance(1, 4) {
			return val.Value{B: taintBytes(r, []int{255, 256, 1023, 1024, 1025, 4096, 4097, 5000}[r.Intn(8)])}
		}
		return val.Value{B: taintBytes(r, r.Range(0, 6))}
	case "string":
		if r.Chance(1, 5) {
			// threshold lengths: helpers may treat long strings differently
			return val.Value{B: taintBytes(r, []int{255, 256, 1023, 1024, 1025, 1500, 4096, 4097, 5000}[r.Intn(9)])}
		}
		return val.Value{B: taintBytes(r, r.Range(0, 6))}
	case "guid":
		return val.Value{B: taintBytes(r, 16)}
	case "date":
		// low six wire bytes tainted; the top two stay zero so that ticks*100 fits int64
		return val.Value{Date: &val.Date{Nanos: int64(leU64(taintBytes(r, 6))) * 100}}
	}
	return val.Value{U: leU64(taintBytes(r, schema.PrimSize(p)))}
}

func runC20(c *Ctx) *Replay {
	g := val.NewGen(primSchema, c.R.Fork("value"), val.GenCfg{MaxElems: 3, LongProb: 30, LongLen: 200})
	// part 1: exhaustive small domains, sliced over the first 64 runs
	if c.Run < 64 {
		for _, p := range []string{"uint16", "int16"} {
			sc := Scenario{Kind: "prims", Reader: "plain", Sched: &simnet.Schedule{Name: "all"}}
			for u := c.Run * 1024; u < (c.Run+1)*1024; u++ {
				sc.Types = append(sc.Types, p)
				sc.Values = append(sc.Values, val.Value{U: uint64(u)})
			}
			if c.Run%2 == 1 {
				sc.Sched = &simnet.Schedule{Name: "1-byte", Repeat: 1}
			}
			viol := execPrims(c.N, &sc)
			c.Count("evaluations", 1)
			c.Count("exhaustive16", 1024)
			c.State("c20x", p, fmt.Sprint(c.Run))
			if viol != nil {
				return c.shrinkAndReport(&sc, viol)
			}
		}
		if c.Run < 4 {
			for _, p := range []string{"bool", "byte", "uint8"} {
				sc := Scenario{Kind: "prims", Reader: readerKinds[c.Run], Sched: &simnet.Schedule{Name: "all"}}
				for u := 0; u < 256; u++ {
					if p == "bool" && u > 1 {
						break
					}
					sc.Types = append(sc.Types, p)
					sc.Values = append(sc.Values, val.Value{U: uint64(u)})
				}
				viol := execPrims(c.N, &sc)
				c.Count("evaluations", 1)
				c.Count("exhaustive8", int64(len(sc.Values)))
				c.State("c20x", p, fmt.Sprint(c.Run))
				if viol != nil {
					return c.shrinkAndReport(&sc, viol)
				}
			}
		}
	}
	// part 2: a multi-primitive stream; fault free, then a failure at every byte
	n := c.R.Range(2, 8)
	taint := true
	base := Scenario{Kind: "prims"}
	for i := 0; i < n; i++ {
		p := c20Prims[c.R.Intn(len(c20Prims))]
		base.Types = append(base.Types, p)
		base.Values = append(base.Values, drawPrim(c.R, g, p, taint))
	}
	free := Scenario{Kind: "prims"}
	for i := 0; i < n; i++ {
		p := c20Prims[c.R.Intn(len(c20Prims))]
		free.Types = append(free.Types, p)
		free.Values = append(free.Values, drawPrim(c.R, g, p, false))
	}
	free.Sched = drawSchedule(c.R, 0, nil)
	free.Reader = readerKinds[c.R.Intn(len(readerKinds))]
	c.Log("C20", free.Types, base.Types)
	c.Sample(map[string]interface{}{"fault_free_stream": free.Types, "faulted_stream": base.Types, "faults": "eof/err at every byte, bare/partial/transient"})
	viol := execPrims(c.N, &free)
	c.Count("evaluations", 1)
	c.Count("sched:"+free.Sched.Name, 1)
	c.State("c20f", fmt.Sprint(free.Types), free.Sched.Name)
	if viol != nil {
		return c.shrinkAndReport(&free, viol)
	}
	total := 0
	for i := range base.Values {
		total += primWidth(base.Types[i], base.Values[i])
	}
	var ks []int
	if total <= 300 {
		for k := 0; k < total; k++ {
			ks = append(ks, k)
		}
	} else {
		// long streams: every offset around each primitive's start and length prefix, plus samples
		off := 0
		set := map[int]bool{}
		for i := range base.Values {
			w := primWidth(base.Types[i], base.Values[i])
			for _, k := range []int{off, off + 1, off + 3, off + 4, off + 5, off + w/2, off + w - 1} {
				if k >= 0 && k < total {
					set[k] = true
				}
			}
			off += w
		}
		for i := 0; i < 48; i++ {
			set[c.R.Intn(total)] = true
		}
		for k := range set {
			ks = append(ks, k)
		}
		sort.Ints(ks)
	}
	for _, k := range ks {
		for variant := 0; variant < 3; variant++ {
			sc := base
			sc.Reader = readerKinds[c.R.Intn(len(readerKinds))]
			sc.Sched = &simnet.Schedule{Name: "all"}
			sc.RFault = &simnet.ReadFault{At: k, Err: "eof"}
			fk := "eof"
			switch variant {
			case 1:
				sc.RFault = &simnet.ReadFault{At: k, Err: simnet.ErrorNames[c.R.Intn(len(simnet.ErrorNames))], Partial: c.R.Bool()}
				sc.Sched = drawSchedule(c.R, 0, nil)
				fk = "err"
			case 2:
				sc.RFault = &simnet.ReadFault{At: k, Err: simnet.ErrorNames[c.R.Intn(4)], Transient: true, Partial: c.R.Bool()}
				fk = "transient"
			}
			if (k+variant)%3 == 0 {
				// the reader goes through NewErrorReader again before every read, as it does
				// whenever a generated decoder hands it to the decoder of a nested record
				sc.Extra = map[string]string{"rewrap": "1"}
				c.Count("rewrapped_streams", 1)
			}
			viol := execPrims(c.N, &sc)
			c.Count("evaluations", 1)
			c.Count("fault:read-"+fk, 1)
			// which primitive the failure landed in
			off, in := 0, ""
			for i := range base.Values {
				w := primWidth(base.Types[i], base.Values[i])
				if k < off+w {
					in = base.Types[i]
					break
				}
				off += w
			}
			c.Count("elem:"+in, 1)
			c.State("c20r", in, fk, fmt.Sprint(k-off))
			if viol != nil {
				c.Log(k, variant, viol.Signature)
				if rp := c.shrinkAndReport(&sc, viol); rp != nil {
					return rp
				}
			}
		}
	}
	// part 3: checked string readers on every buffer length around 4+len
	sv := drawPrim(c.R, g, "string", false)
	full := primEncode("string", sv)
	for n := 0; n <= len(full)+1 && n < 600; n++ {
		buf := append(append([]byte(nil), full...), 0x55)[:n]
		for _, shared := range []bool{false, true} {
			gb := c.N.guard.place(buf)
			var s string
			var err error
			cr := safeCall(1<<20, 1<<20, func() {
				if shared {
					s, err = iohelp.ReadStringBytesSharedMemory(gb)
				} else {
					s, err = iohelp.ReadStringBytes(gb)
				}
			})
			c.Count("evaluations", 1)
			c.Count("strlen_probe", 1)
			sc := Scenario{Kind: "prims", Types: []string{"string"}, Values: []val.Value{sv}, Cut: n, Extra: map[string]string{"probe": "readstringbytes", "shared": fmt.Sprint(shared)}}
			var v *Violation
			switch {
			case cr.Panicked:
				v = &Violation{Class: "panic", Signature: "panic|ReadStringBytes|short-buffer", Detail: fmt.Sprintf("ReadStringBytes(shared=%v) on %d of %d bytes: %s", shared, n, len(full), cr.PanicText())}
			case n < len(full) && err == nil:
				v = &Violation{Class: "nil-error", Signature: "nil-error|ReadStringBytes|short-buffer", Detail: fmt.Sprintf("ReadStringBytes(shared=%v) on %d of %d bytes returned %q, nil", shared, n, len(full), clipStr(s, 20))}
			case n >= len(full) && (err != nil || s != string(sv.B)):
				v = &Violation{Class: "mismatch", Signature: "mismatch|ReadStringBytes|full-buffer", Detail: fmt.Sprintf("ReadStringBytes(shared=%v) on a complete buffer returned %q, %v", shared, clipStr(s, 20), err)}
			}
			if v != nil {
				if rp := c.shrinkAndReport(&sc, v); rp != nil {
					return rp
				}
			}
		}
	}
	// part 3b: stream and slice readers agree on ARBITRARY bytes (also ones no writer emits,
	// such as bool bytes other than 0/1)
	for _, p := range schema.Primitives {
		if p == "string" {
			continue
		}
		w := schema.PrimSize(p)
		raw := c.R.Bytes(w)
		if p == "bool" {
			raw[0] = byte(c.R.Intn(256))
		}
		if p == "date" {
			raw[7] = byte(int8(raw[7]) >> 6) // keep ticks*100 inside int64
		}
		link := simnet.NewLink(raw, simnet.Schedule{Repeat: 1 + c.R.Intn(3)}, nil)
		er := iohelp.NewErrorReader(struct{ io.Reader }{link})
		var a, b val.Value
		cr := safeCall(1<<20, 1<<20, func() {
			a = readStream(er, p)
			b, _ = readSlice(c.N.guard.place(raw), p)
		})
		c.Count("evaluations", 1)
		c.Count("raw_agreement", 1)
		var v *Violation
		if cr.Panicked {
			v = &Violation{Class: "panic", Signature: "panic|raw-agreement|" + p, Detail: cr.PanicText()}
		} else if d := primDiff(p, a, b); d != "" {
			v = &Violation{Class: "mismatch", Signature: "mismatch|stream-vs-slice|" + p, Detail: fmt.Sprintf("Read%s on the stream and Read%sBytes on the slice disagree on bytes % x: %s", p, p, raw, d)}
		}
		if v != nil {
			sc := Scenario{Kind: "prims", Types: []string{p}, Input: raw, Extra: map[string]string{"probe": "rawagree"}}
			if rp := c.shrinkAndReport(&sc, v); rp != nil {
				return rp
			}
		}
	}
	// part 3c: short views with spare capacity, every primitive, every length below the width
	for _, p := range schema.Primitives {
		v := drawPrim(c.R, g, p, true)
		w := primWidth(p, v)
		for k := 0; k < w && k < 40; k++ {
			sc := Scenario{Kind: "prims", Types: []string{p}, Values: []val.Value{v}, Cut: k, Extra: map[string]string{"probe": "shortview"}}
			viol := execShortView(c.N, &sc)
			c.Count("evaluations", 1)
			c.Count("short_view_probe", 1)
			c.State("c20v", p, fmt.Sprint(k))
			if viol != nil {
				if rp := c.shrinkAndReport(&sc, viol); rp != nil {
					return rp
				}
			}
		}
	}
	// part 3d: two readers at once. Reads that FAILED came before (what they leave behind in
	// shared storage, a pool say, is what this is about); then reader A's value arrives in
	// two pieces and reader B reads a whole value of its own in between
	for _, p := range []string{"string", "guid", "bytes", "date", "uint64"} {
		va, vb := drawPrim(c.R, g, p, true), drawPrim(c.R, g, p, true)
		w := primWidth(p, va)
		if w < 2 {
			continue
		}
		sc := Scenario{Kind: "prims", Types: []string{p}, Values: []val.Value{va, vb}, Cut: 1 + c.R.Intn(w-1), Extra: map[string]string{"probe": "overlap"}}
		viol := execPrimOverlap(c.N, &sc)
		c.Count("evaluations", 1)
		c.Count("overlapping_readers", 1)
		c.State("c20o", p)
		if viol != nil {
			if rp := c.shrinkAndReport(&sc, viol); rp != nil {
				return rp
			}
		}
	}
	// part 3e: what a read returned is the caller's: it does not change when the SOURCE is
	// used again (a bytes.Buffer that is reset and refilled with the next frame)
	for _, p := range []string{"bytes", "string", "guid", "bytes"} {
		sc := Scenario{Kind: "prims", Types: []string{p}, Values: []val.Value{drawPrim(c.R, g, p, true)}, Cut: c.R.Intn(3), Extra: map[string]string{"probe": "sourcereuse"}}
		viol := execPrimSourceReuse(c.N, &sc)
		c.Count("evaluations", 1)
		c.Count("source_reused_after_read", 1)
		c.State("c20s", p, fmt.Sprint(sc.Cut))
		if viol != nil {
			if rp := c.shrinkAndReport(&sc, viol); rp != nil {
				return rp
			}
		}
	}
	// part 4: hostile length prefixes on the checked string readers (never out of bounds)
	for _, pfx := range []uint32{uint32(len(sv.B)) + 1, 1 << 16, 1<<31 - 1, 1 << 31, 0xFFFFFFF0, 0xFFFFFFFB, 0xFFFFFFFC, 0xFFFFFFFD, 0xFFFFFFFE, 0xFFFFFFFF} {
		for _, shared := range []bool{false, true} {
			buf := append([]byte(nil), full...)
			if len(buf) < 4 {
				continue
			}
			buf[0], buf[1], buf[2], buf[3] = byte(pfx), byte(pfx>>8), byte(pfx>>16), byte(pfx>>24)
			gb := c.N.guard.place(buf)
			var err error
			cr := safeCall(1<<20, 1<<20, func() {
				if shared {
					_, err = iohelp.ReadStringBytesSharedMemory(gb)
				} else {
					_, err = iohelp.ReadStringBytes(gb)
				}
			})
			c.Count("evaluations", 1)
			c.Count("strlen_hostile_prefix", 1)
			c.State("c20p", fmt.Sprint(pfx), fmt.Sprint(shared))
			var v *Violation
			if cr.Panicked {
				v = &Violation{Class: "panic", Signature: "panic|ReadStringBytes|hostile-prefix", Detail: fmt.Sprintf("ReadStringBytes(shared=%v) with length prefix %#x on a %d-byte buffer: %s", shared, pfx, len(buf), cr.PanicText())}
			} else if err == nil {
				v = &Violation{Class: "nil-error", Signature: "nil-error|ReadStringBytes|hostile-prefix", Detail: fmt.Sprintf("ReadStringBytes(shared=%v) accepted length prefix %#x on a %d-byte buffer", shared, pfx, len(buf))}
			}
			if v != nil {
				sc := Scenario{Kind: "prims", Types: []string{"string"}, Values: []val.Value{sv}, Extra: map[string]string{"probe": "hostileprefix", "shared": fmt.Sprint(shared), "prefix": fmt.Sprint(pfx)}}
				if rp := c.shrinkAndReport(&sc, v); rp != nil {
					return rp
				}
			}
		}
	}
	return nil
}

// execPrimOverlap: failed reads first, then reader A's value in two pieces with reader B
// reading a complete value while A waits for its second piece.
func execPrimOverlap(n *Node, sc *Scenario) *Violation {
	if len(sc.Types) < 1 || len(sc.Values) < 2 {
		return nil
	}
	p := sc.Types[0]
	ea, eb := primEncode(p, sc.Values[0]), primEncode(p, sc.Values[1])
	cut := sc.Cut
	if cut < 1 || cut >= len(ea) {
		cut = len(ea) / 2
	}
	if cut < 1 {
		return nil
	}
	var ga val.Value
	var bad string
	cr := safeCall(1<<22, 1<<22, func() {
		// earlier reads of this process that failed: cut streams, and reads on a reader
		// that has failed already
		for _, q := range []string{"string", "guid", p} {
			full := primEncode(q, drawFixed(q))
			for _, k := range []int{0, len(full) / 2, len(full) - 1} {
				if k < 0 || k >= len(full) {
					continue
				}
				er := iohelp.NewErrorReader(struct{ io.Reader }{simnet.NewLink(full[:k], simnet.Schedule{}, nil)})
				readStream(er, q)
				readStream(er, q)
			}
		}
		la := simnet.NewLink(ea, simnet.Schedule{Chunks: []int{4, cut}, Repeat: 0}, nil)
		if p != "string" && p != "bytes" {
			la = simnet.NewLink(ea, simnet.Schedule{Chunks: []int{cut}}, nil)
		}
		era := iohelp.NewErrorReader(struct{ io.Reader }{la})
		la.Hook = func(call int) {
			if call < 2 || bad != "" {
				return
			}
			erb := iohelp.NewErrorReader(struct{ io.Reader }{simnet.NewLink(eb, simnet.Schedule{}, nil)})
			gb := readStream(erb, p)
			if erb.Err != nil {
				bad = "reader B: " + erb.Err.Error()
			} else if d := primDiff(p, sc.Values[1], gb); d != "" {
				bad = "reader B, which read a whole value while reader A was waiting for the rest of its own: " + d
			}
		}
		ga = readStream(era, p)
		if bad == "" && era.Err != nil {
			bad = "reader A: " + era.Err.Error()
		}
	})
	if cr.Panicked {
		class := "panic"
		if cr.Sentinel != nil {
			class = cr.Sentinel.Kind
		}
		return &Violation{Class: class, Signature: class + "|overlapping-readers|" + p, Detail: cr.PanicText()}
	}
	if bad == "" {
		if d := primDiff(p, sc.Values[0], ga); d != "" {
			bad = "reader A, whose value arrived in two pieces with another reader's read in between: " + d
		}
	}
	if bad != "" {
		return &Violation{Class: "stale", Signature: "stale|overlapping-readers|" + p, Detail: clipStr(bad, 300), Facts: map[string]string{"prim": p}}
	}
	return nil
}

// execPrimSourceReuse reads one value from a *bytes.Buffer (Cut 0: directly, 1: under an
// io.LimitedReader, 2: under two), then resets the buffer and fills it with other bytes.
func execPrimSourceReuse(n *Node, sc *Scenario) *Violation {
	if len(sc.Types) < 1 || len(sc.Values) < 1 {
		return nil
	}
	p := sc.Types[0]
	enc := primEncode(p, sc.Values[0])
	bb := bytes.NewBuffer(append(make([]byte, 0, len(enc)+64), enc...))
	var src io.Reader = bb
	for i := 0; i < sc.Cut && i < 2; i++ {
		src = &io.LimitedReader{R: src, N: int64(len(enc)) + 8}
	}
	var got val.Value
	var rerr error
	cr := safeCall(1<<22, 1<<22, func() {
		er := iohelp.NewErrorReader(src)
		got = readStream(er, p)
		rerr = er.Err
		bb.Reset()
		for i := 0; i < len(enc)+32; i++ {
			bb.WriteByte(0xA5)
		}
	})
	if cr.Panicked {
		return &Violation{Class: "panic", Signature: "panic|source-reuse|" + p, Detail: cr.PanicText()}
	}
	if rerr != nil {
		return mismatch("spurious-error|source-reuse|"+p, rerr.Error(), nil)
	}
	if d := primDiff(p, sc.Values[0], got); d != "" {
		return &Violation{Class: "stale", Signature: "stale|source-reuse|" + p,
			Detail: "a value read from a bytes.Buffer changed when the buffer was reset and refilled afterwards: " + clipStr(d, 200), Facts: map[string]string{"prim": p}}
	}
	return nil
}

// drawFixed is a fixed value of a primitive (for preludes, no randomness).
func drawFixed(p string) val.Value {
	switch p {
	case "string", "bytes":
		return val.Value{B: []byte("prelude-value-0123456789")}
	case "guid":
		return val.Value{B: []byte{1, 2, 3, 4, 5, 6, 7, 8, 9, 10, 11, 12, 13, 14, 15, 16}}
	case "date":
		return val.Value{Date: &val.Date{Sec: 1000, Nanos: 100}}
	}
	return val.Value{U: 0x0102030405060708}
}

// execPrims runs one primitive stream scenario (and, for the probe form, the string
// bounds probe).
func execPrims(n *Node, sc *Scenario) *Violation {
	if sc.Extra["probe"] == "rawagree" {
		p := sc.Types[0]
		link := simnet.NewLink(sc.Input, simnet.Schedule{Repeat: 1}, nil)
		er := iohelp.NewErrorReader(struct{ io.Reader }{link})
		var a, b val.Value
		cr := safeCall(1<<20, 1<<20, func() {
			a = readStream(er, p)
			b, _ = readSlice(n.guard.place(sc.Input), p)
		})
		if cr.Panicked {
			return &Violation{Class: "panic", Signature: "panic|raw-agreement|" + p, Detail: cr.PanicText()}
		}
		if d := primDiff(p, a, b); d != "" {
			return &Violation{Class: "mismatch", Signature: "mismatch|stream-vs-slice|" + p, Detail: d}
		}
		return nil
	}
	if sc.Extra["probe"] == "shortview" {
		return execShortView(n, sc)
	}
	if sc.Extra["probe"] == "overlap" {
		return execPrimOverlap(n, sc)
	}
	if sc.Extra["probe"] == "sourcereuse" {
		return execPrimSourceReuse(n, sc)
	}
	if sc.Extra["probe"] == "hostileprefix" {
		full := primEncode("string", sc.Values[0])
		var pfx uint32
		fmt.Sscan(sc.Extra["prefix"], &pfx)
		buf := append([]byte(nil), full...)
		buf[0], buf[1], buf[2], buf[3] = byte(pfx), byte(pfx>>8), byte(pfx>>16), byte(pfx>>24)
		gb := n.guard.place(buf)
		var err error
		cr := safeCall(1<<20, 1<<20, func() {
			if sc.Extra["shared"] == "true" {
				_, err = iohelp.ReadStringBytesSharedMemory(gb)
			} else {
				_, err = iohelp.ReadStringBytes(gb)
			}
		})
		if cr.Panicked {
			return &Violation{Class: "panic", Signature: "panic|ReadStringBytes|hostile-prefix", Detail: cr.PanicText()}
		}
		if err == nil && int(pfx) != len(full)-4 {
			return &Violation{Class: "nil-error", Signature: "nil-error|ReadStringBytes|hostile-prefix", Detail: "accepted"}
		}
		return nil
	}
	if sc.Extra["probe"] == "readstringbytes" {
		full := primEncode("string", sc.Values[0])
		k := sc.Cut
		if k > len(full)+1 {
			k = len(full) + 1
		}
		buf := n.guard.place(append(append([]byte(nil), full...), 0x55)[:k])
		var s string
		var err error
		cr := safeCall(1<<20, 1<<20, func() {
			if sc.Extra["shared"] == "true" {
				s, err = iohelp.ReadStringBytesSharedMemory(buf)
			} else {
				s, err = iohelp.ReadStringBytes(buf)
			}
		})
		switch {
		case cr.Panicked:
			return &Violation{Class: "panic", Signature: "panic|ReadStringBytes|short-buffer", Detail: cr.PanicText()}
		case k < len(full) && err == nil:
			return &Violation{Class: "nil-error", Signature: "nil-error|ReadStringBytes|short-buffer", Detail: "nil error on a short buffer"}
		case k >= len(full) && (err != nil || s != string(sc.Values[0].B)):
			return &Violation{Class: "mismatch", Signature: "mismatch|ReadStringBytes|full-buffer", Detail: "wrong result on a complete buffer"}
		}
		return nil
	}
	// 1. writers: stream == slice == reference layout
	sink := simnet.NewSink(nil)
	ew := iohelp.NewErrorWriter(sink)
	var ref []byte
	var offs []int
	for i, p := range sc.Types {
		if i >= len(sc.Values) {
			break
		}
		v := sc.Values[i]
		if p == "date" && v.Date == nil {
			v.Date = &val.Date{Zero: true}
			sc.Values[i] = v
		}
		if p == "guid" && len(v.B) != 16 {
			v.B = append(append([]byte(nil), v.B...), make([]byte, 16)...)[:16]
			sc.Values[i] = v
		}
		want := primEncode(p, v)
		offs = append(offs, len(ref))
		ref = append(ref, want...)
		before := len(sink.Buf)
		var sl []byte
		cr := safeCall(0, 0, func() {
			writeStream(ew, p, v)
			sl = writeSlice(n.guard, p, v)
		})
		if cr.Panicked {
			return &Violation{Class: "panic", Signature: "panic|write|" + p, Detail: cr.PanicText()}
		}
		if !bytes.Equal(sink.Buf[before:], want) {
			return mismatch("layout|stream-writer|"+p, fmt.Sprintf("Write%s wrote % x, reference layout is % x", p, clipB(sink.Buf[before:]), clipB(want)), nil)
		}
		if !bytes.Equal(sl, want) {
			return mismatch("layout|slice-writer|"+p, fmt.Sprintf("Write%sBytes wrote % x, reference layout is % x", p, clipB(sl), clipB(want)), nil)
		}
	}
	if ew.Err != nil {
		return mismatch("writer-error", ew.Err.Error(), nil)
	}
	// 2. slice readers on exact-width guarded buffers
	if sc.RFault == nil {
		for i, p := range sc.Types {
			if i >= len(offs) {
				break
			}
			w := primWidth(p, sc.Values[i])
			buf := n.guard.place(ref[offs[i] : offs[i]+w])
			var got val.Value
			var err error
			cr := safeCall(1<<20, 1<<20, func() { got, err = readSlice(buf, p) })
			if cr.Panicked {
				return &Violation{Class: "panic", Signature: "panic|slice-reader|" + p, Detail: cr.PanicText()}
			}
			if err != nil {
				return mismatch("slice-reader-error|"+p, err.Error(), nil)
			}
			if d := primDiff(p, sc.Values[i], got); d != "" {
				return mismatch("inverse|slice-reader|"+p, d, nil)
			}
		}
	}
	// 3. stream readers over the link
	s := simnet.Schedule{}
	if sc.Sched != nil {
		s = *sc.Sched
	}
	var rf *simnet.ReadFault
	if sc.RFault != nil {
		x := *sc.RFault
		if x.At >= len(ref) && len(ref) > 0 {
			x.At = len(ref) - 1
		}
		rf = &x
	}
	link := simnet.NewLink(ref, s, rf)
	rw := wrapReader(sc.Reader, link)
	er := iohelp.NewErrorReader(rw.r)
	failed := false
	for i, p := range sc.Types {
		if i >= len(offs) {
			break
		}
		w := primWidth(p, sc.Values[i])
		var got val.Value
		if sc.Extra["rewrap"] == "1" {
			er = iohelp.NewErrorReader(er)
		}
		cr := safeCall(1<<20, 1<<20, func() { got = readStream(er, p) })
		if cr.Panicked {
			class := "panic"
			if cr.Sentinel != nil {
				class = cr.Sentinel.Kind
			}
			return &Violation{Class: class, Signature: class + "|stream-reader|" + p, Detail: cr.PanicText(), Facts: map[string]string{"after_failure": fmt.Sprint(failed)}}
		}
		covers := rf != nil && rf.At < offs[i]+w // this read needs the byte that is never delivered
		if !covers && !failed {
			if er.Err != nil {
				return mismatch("spurious-error|"+p, fmt.Sprintf("read %d (%s) succeeded on the link but ErrorReader.Err = %v", i, p, er.Err), nil)
			}
			if d := primDiff(p, sc.Values[i], got); d != "" {
				return mismatch("inverse|stream-reader|"+p, fmt.Sprintf("read %d: %s", i, d), nil)
			}
			continue
		}
		// the failing read or a later one
		if er.Err == nil {
			return &Violation{Class: "nil-error", Signature: "nil-error|stream-reader|" + p,
				Detail: fmt.Sprintf("read %d (%s) needed byte %d which the link never delivered (%s), but ErrorReader.Err is nil", i, p, rf.At, rf.Err)}
		}
		filled := 0
		if !failed && rf.At > offs[i] {
			filled = rf.At - offs[i]
		}
		failed = true
		// staleness: positions this read did not fill must not hold earlier reads' bytes
		gb := primEncode(p, got)
		switch p {
		case "bool":
			if filled == 0 && got.U != 0 {
				return &Violation{Class: "stale", Signature: "stale|stream-reader|bool", Detail: fmt.Sprintf("read %d (bool) returned true although no byte of it was delivered", i)}
			}
		case "string":
			if filled < 4 && len(got.B) != 0 {
				return &Violation{Class: "stale", Signature: "stale|stream-reader|string", Detail: fmt.Sprintf("read %d (string) returned %d bytes although its length prefix was not delivered", i, len(got.B))}
			}
			for j := filled; j < len(gb); j++ {
				if j >= 4 && tainted(gb[j]) {
					return &Violation{Class: "stale", Signature: "stale|stream-reader|string", Detail: fmt.Sprintf("read %d (string) returned an undelivered tainted byte at %d", i, j)}
				}
			}
		case "bytes":
			// a byte array is handed out also after a failed read: what of it was delivered
			// is the caller's to ignore, what was NOT delivered must not come from the stream
			for j := filled; j < len(gb); j++ {
				if j >= 4 && tainted(gb[j]) {
					return &Violation{Class: "stale", Signature: "stale|stream-reader|bytes", Detail: fmt.Sprintf("read %d (byte array of %d) returned an undelivered stream byte at payload offset %d (the stream failed at payload offset %d)", i, len(got.B), j-4, filled-4),
						Facts: map[string]string{"prim": p}}
				}
			}
		default:
			if p == "guid" {
				// compare in wire order
			}
			for j := filled; j < len(gb); j++ {
				if tainted(gb[j]) {
					return &Violation{Class: "stale", Signature: "stale|stream-reader|" + p,
						Detail: fmt.Sprintf("read %d (%s) returned % x after the stream failed at byte %d: wire byte %d (0x%02x) was never delivered to this read and comes from an earlier one", i, p, gb, rf.At, j, gb[j]),
						Facts:  map[string]string{"prim": p}}
				}
			}
		}
	}
	return nil
}

func clipB(b []byte) []byte {
	if len(b) > 24 {
		return b[:24]
	}
	return b
}

var _ = io.EOF
