package harness

import (
	"bufio"
	"bytes"
	"fmt"
	"io"
	"os"
	"reflect"
	"regexp"
	"runtime"
	"runtime/debug"
	"strconv"
	"strings"
	"syscall"

	"github.com/200sc/bebop/iohelp"

	"verif/pkg/bridge"
	"verif/pkg/refcodec"
	"verif/pkg/reg"
	"verif/pkg/schema"
	"verif/pkg/simnet"
	"verif/pkg/val"
	"verif/simrt"
)

// ---------------------------------------------------------------------------------
// guarded buffers: input ends exactly at a PROT_NONE page, so an unchecked read or write
// past the slice faults instead of silently touching allocator slack.

type guardBuf struct {
	mem  []byte
	size int
}

func newGuardBuf(size int) *guardBuf {
	page := os.Getpagesize()
	size = (size + page - 1) / page * page
	mem, err := syscall.Mmap(-1, 0, size+page, syscall.PROT_READ|syscall.PROT_WRITE, syscall.MAP_ANON|syscall.MAP_PRIVATE)
	if err != nil {
		return &guardBuf{}
	}
	if err := syscall.Mprotect(mem[size:], syscall.PROT_NONE); err != nil {
		return &guardBuf{}
	}
	debug.SetPanicOnFault(true)
	return &guardBuf{mem: mem, size: size}
}

// place copies b so that it ends at the guard page; cap == len.
func (g *guardBuf) place(b []byte) []byte {
	if g.mem == nil || len(b) > g.size {
		out := make([]byte, len(b))
		copy(out, b)
		return out[:len(b):len(b)]
	}
	s := g.mem[g.size-len(b) : g.size : g.size]
	copy(s, b)
	return s
}

// ---------------------------------------------------------------------------------
// safe calls

type callResult struct {
	Panicked bool
	PVal     interface{}
	Sentinel *simrt.Sentinel
	Frames   []runtime.Frame
	Alloc    int64
	Steps    int64
}

func (r *callResult) PanicText() string {
	if !r.Panicked {
		return ""
	}
	return fmt.Sprint(r.PVal)
}

// safeCall runs f with budgets armed; a panic (including a budget sentinel or a guard
// page fault) is captured with its stack.
func safeCall(allocLimit, stepLimit int64, f func()) (res callResult) {
	simrt.SetBudget(allocLimit, stepLimit)
	defer func() {
		if p := recover(); p != nil {
			res.Panicked = true
			res.PVal = p
			if s, ok := p.(*simrt.Sentinel); ok {
				res.Sentinel = s
			}
			pcs := make([]uintptr, 48)
			n := runtime.Callers(2, pcs)
			fr := runtime.CallersFrames(pcs[:n])
			for {
				f, more := fr.Next()
				res.Frames = append(res.Frames, f)
				if !more {
					break
				}
			}
		}
		res.Alloc, res.Steps = simrt.ClearBudget()
	}()
	f()
	return
}

var (
	reIdxVar  = regexp.MustCompile(`\b([ikv]|ln|elem)\d+\b`)
	reBbp     = regexp.MustCompile(`\bbbp\.[A-Za-z0-9_]+`)
	reMakeFn  = regexp.MustCompile(`\b([Mm]ust)?[Mm]ake[A-Za-z0-9_]+FromBytes\b`)
	reMakeFn2 = regexp.MustCompile(`\b[Mm]ake[A-Z][A-Za-z0-9_]*\(r\)`)
	reNew     = regexp.MustCompile(`new\([^)]*\)`)
	reTypeLit = regexp.MustCompile(`(\[\]|map\[[^\]]*\])+[A-Za-z0-9_.\[\]]+`)
	reSimrt   = regexp.MustCompile(`_vsimrt\.Alloc\((.*), \d+\)`)
	reCase    = regexp.MustCompile(`^case \d+:`)
	reSpace   = regexp.MustCompile(`\s+`)
)

// normaliseStmt erases schema-specific identifiers from a line of generated code so that
// one template site has one text.
func normaliseStmt(s string) string {
	s = strings.TrimSpace(s)
	for i := 0; i < 3; i++ {
		s = reSimrt.ReplaceAllString(s, "$1")
	}
	s = reIdxVar.ReplaceAllString(s, "$1")
	s = reBbp.ReplaceAllString(s, "bbp.F")
	s = reMakeFn.ReplaceAllString(s, "${1}MakeTFromBytes")
	s = reMakeFn2.ReplaceAllString(s, "MakeT(r)")
	s = reNew.ReplaceAllString(s, "new(T)")
	s = reTypeLit.ReplaceAllString(s, "[]T")
	s = reCase.ReplaceAllString(s, "case N:")
	s = reSpace.ReplaceAllString(s, " ")
	return s
}

var srcCache = map[string][]string{}

func srcLine(file string, line int) string {
	ls, ok := srcCache[file]
	if !ok {
		b, err := os.ReadFile(file)
		if err == nil {
			ls = strings.Split(string(b), "\n")
		}
		srcCache[file] = ls
	}
	if line-1 >= 0 && line-1 < len(ls) {
		return ls[line-1]
	}
	return ""
}

// site finds the innermost frame in generated code or in the repository's runtime and
// returns (where, normalised statement, raw frame text).
func site(frames []runtime.Frame) (where, stmt, top string) {
	// prefer the innermost frame in generated code: that is the template site
	for _, f := range frames {
		if strings.Contains(f.File, "/h/gen/") {
			fn := f.Function
			m := fn[strings.LastIndex(fn, ".")+1:]
			return "generated:" + m, normaliseStmt(srcLine(f.File, f.Line)), fmt.Sprintf("%s %s:%d", fn, shortFile(f.File), f.Line)
		}
	}
	for _, f := range frames {
		fn := f.Function
		if strings.Contains(fn, "github.com/200sc/bebop") {
			m := fn[strings.LastIndex(fn, "/")+1:]
			return m, normaliseStmt(srcLine(f.File, f.Line)), fmt.Sprintf("%s %s:%d", fn, shortFile(f.File), f.Line)
		}
	}
	if len(frames) > 0 {
		return frames[0].Function, "", fmt.Sprintf("%s %s:%d", frames[0].Function, shortFile(frames[0].File), frames[0].Line)
	}
	return "?", "", ""
}

// siteChain returns the innermost generated-code frame's method plus the outermost one
// (the entry method the harness called).
func shortFile(f string) string {
	if i := strings.Index(f, "/h/gen/"); i >= 0 {
		return f[i+3:]
	}
	if i := strings.Index(f, "/repo/"); i >= 0 {
		return f[i+1:]
	}
	return f
}

// ---------------------------------------------------------------------------------
// records

func (n *Node) typeOf(b *Build, typ string) (*reg.Type, *schema.Def, error) {
	d := b.Schema.Lookup(typ)
	if d == nil {
		return nil, nil, fmt.Errorf("schema %s has no record %s", b.Prog.ID, typ)
	}
	t := b.Types[typ]
	if t == nil {
		return nil, d, fmt.Errorf("build %s has no Go type for record %s", b.Name(), typ)
	}
	return t, d, nil
}

// fill creates a Go record holding v.
func (n *Node) fill(b *Build, typ string, v val.Value) (reg.Record, error) {
	t, _, err := n.typeOf(b, typ)
	if err != nil {
		return nil, err
	}
	rec := t.New()
	if err := bridge.ToGo(b.Schema, schema.Type{Named: typ}, v, reflect.ValueOf(rec).Elem()); err != nil {
		return nil, err
	}
	return rec, nil
}

// readBack converts a decoded Go record into a tree.
func (n *Node) readBack(b *Build, typ string, rec reg.Record) (val.Value, bridge.Notes, error) {
	var notes bridge.Notes
	v, err := bridge.FromGo(b.Schema, schema.Type{Named: typ}, reflect.ValueOf(rec).Elem(), &notes)
	return v, notes, err
}

// ---------------------------------------------------------------------------------
// budgets

const (
	baseAlloc = 1 << 20
	baseSteps = 1 << 22
)

// allocFactor bounds the Go bytes requested through make() per wire byte for a schema:
// twice the largest (Go element size / minimal wire size of the element) over every
// array and map type of the schema, and at least 16. Only make() sites are charged.
var factorCache = map[*schema.Schema]int64{}

func goSize(s *schema.Schema, t schema.Type, depth int) int64 {
	switch {
	case t.Array != nil:
		return 24
	case t.MapV != nil:
		return 8
	case t.Prim == "string":
		return 16
	case t.Prim == "date":
		return 24
	case t.Prim != "":
		return int64(schema.PrimSize(t.Prim))
	}
	d := s.Lookup(t.Named)
	if d == nil || depth > 6 {
		return 8
	}
	switch d.Kind {
	case schema.KEnum:
		return int64(schema.PrimSize(d.BaseType()))
	case schema.KMessage:
		return 8 * int64(len(d.Fields)+1)
	case schema.KUnion:
		return 8 * int64(len(d.Branches)+1)
	}
	var n int64
	for _, f := range d.Fields {
		n += goSize(s, f.Type, depth+1) + 7
	}
	return n + 8
}

func allocFactor(s *schema.Schema) int64 {
	if f, ok := factorCache[s]; ok {
		return f
	}
	best := int64(8)
	maxEntry, maxDepth := int64(8), 0
	var depthOf func(t schema.Type) int
	depthOf = func(t schema.Type) int {
		switch {
		case t.Array != nil:
			return 1 + depthOf(*t.Array)
		case t.MapV != nil:
			return 1 + depthOf(*t.MapV)
		}
		return 0
	}
	var walk func(t schema.Type)
	walk = func(t schema.Type) {
		if d := depthOf(t); d > maxDepth {
			maxDepth = d
		}
		switch {
		case t.Array != nil:
			if g := goSize(s, *t.Array, 0); g > maxEntry {
				maxEntry = g
			}
			w := int64(s.MinWire(*t.Array))
			if w < 1 {
				w = 1
			}
			if r := (goSize(s, *t.Array, 0) + w - 1) / w; r > best {
				best = r
			}
			walk(*t.Array)
		case t.MapV != nil:
			w := int64(s.MinWire(schema.Type{Prim: t.MapK}) + s.MinWire(*t.MapV))
			if w < 1 {
				w = 1
			}
			g := goSize(s, schema.Type{Prim: t.MapK}, 0) + goSize(s, *t.MapV, 0) + 16
			if g > maxEntry {
				maxEntry = g
			}
			if r := (g + w - 1) / w; r > best {
				best = r
			}
			walk(*t.MapV)
		}
	}
	for _, d := range s.Records() {
		for _, f := range d.Fields {
			walk(f.Type)
		}
	}
	f := 2 * best
	if g := 2 * maxEntry * int64(maxDepth+1); g > f {
		f = g
	}
	if f < 64 {
		f = 64
	}
	factorCache[s] = f
	return f
}

func budgetsFor(s *schema.Schema, wireLen int) (alloc, steps int64) {
	l := int64(wireLen)
	return baseAlloc + allocFactor(s)*l, baseSteps + 64*l
}

// ---------------------------------------------------------------------------------
// encoders

type encOut struct {
	Bytes  []byte
	Err    error
	Call   callResult
	Sink   *simnet.Sink
	RetN   int    // MarshalBebopTo's return value
	Size   int    // Size() before encoding
	Buffer []byte // whole destination buffer (marshalto)
}

func fillBytes(n int, d *Dirty) []byte {
	b := make([]byte, n)
	switch d.Fill {
	case "ff":
		for i := range b {
			b[i] = 0xff
		}
	case "random":
		x := d.Seed | 1
		for i := range b {
			x ^= x << 13
			x ^= x >> 7
			x ^= x << 17
			b[i] = byte(x)
			if b[i] == 0 {
				b[i] = 0xa5
			}
		}
	}
	return b
}

func wrapWriter(kind string, s *simnet.Sink) io.Writer {
	switch kind {
	case "errorwriter":
		return iohelp.NewErrorWriter(s)
	case "fat":
		return simnet.FatSink{Sink: s}
	case "seeker":
		// a file: io.WriteSeeker whose writes land where Seek put the offset
		return &simnet.FileSink{Sink: s}
	case "append-seeker":
		// a file opened with O_APPEND: Seek succeeds, writes go to the end all the same
		return &simnet.FileSink{Sink: s, Append: true}
	}
	return struct{ io.Writer }{s}
}

func (n *Node) encode(rec reg.Record, encoder string, order MapOrder, dirty *Dirty, wf *simnet.WriteFault, writer string) encOut {
	var out encOut
	simrt.SetMapOrder(order.Strategy, order.Seed)
	defer simrt.SetMapOrder(simrt.OrderNative, 0)
	switch encoder {
	case "marshal":
		out.Call = safeCall(0, 0, func() {
			out.Size = rec.Size()
			out.Bytes = rec.MarshalBebop()
		})
	case "marshalto":
		d := dirty
		if d == nil {
			d = &Dirty{Fill: "zero"}
		}
		out.Call = safeCall(0, 0, func() {
			out.Size = rec.Size()
			var buf []byte
			if d.Pad == 0 {
				buf = n.guard.place(fillBytes(out.Size, d))
			} else {
				buf = fillBytes(out.Size+d.Pad, d)
			}
			out.Buffer = buf
			out.RetN = rec.MarshalBebopTo(buf)
			if out.Size <= len(buf) {
				out.Bytes = append([]byte(nil), buf[:out.Size]...)
			}
			out.Buffer = append([]byte(nil), buf...)
		})
	case "encode":
		out.Sink = simnet.NewSink(wf)
		w := wrapWriter(writer, out.Sink)
		out.Call = safeCall(0, 0, func() {
			out.Size = rec.Size()
			out.Err = rec.EncodeBebop(w)
		})
		out.Bytes = out.Sink.Buf
	default:
		out.Err = fmt.Errorf("unknown encoder %q", encoder)
	}
	return out
}

// ---------------------------------------------------------------------------------
// decoders

type decOut struct {
	Rec      reg.Record
	Err      error
	Call     callResult
	Link     *simnet.Link
	Consumed int // bytes taken from the link by the decoder (stream decoders)
	NoSuch   bool
	Buf      []byte // the buffer a byte decoder was given
}

func isStreamDecoder(d string) bool { return d == "decode" || d == "make" }

type readerWrap struct {
	r        io.Reader
	buffered func() int
	// direct != nil: the reader does not go through the link at all (a concrete standard
	// library reader over the deliverable bytes); it returns the bytes consumed so far
	direct func() int
}

// consumed is the number of stream bytes the code under test has taken so far.
func (rw readerWrap) consumed(l *simnet.Link) int {
	if rw.direct != nil {
		return rw.direct()
	}
	n := l.Pos + l.SeekPast
	if rw.buffered != nil {
		n -= rw.buffered()
	}
	return n
}

func wrapReader(kind string, l *simnet.Link) readerWrap {
	if k, ok := strings.CutPrefix(kind, "limited-cut:"); ok {
		// the caller hands over a frame of a LONGER stream: an *io.LimitedReader whose limit
		// ends the input while the stream underneath goes on
		n, _ := strconv.Atoi(k)
		return readerWrap{r: &io.LimitedReader{R: struct{ io.Reader }{l}, N: int64(n)}}
	}
	switch kind {
	case "bytereader":
		return readerWrap{r: simnet.ByteReaderLink{Link: l}}
	case "errorreader":
		return readerWrap{r: iohelp.NewErrorReader(struct{ io.Reader }{l})}
	case "bufio":
		br := bufio.NewReaderSize(struct{ io.Reader }{l}, 16)
		return readerWrap{r: br, buffered: br.Buffered}
	case "fat":
		// every optional capability at once: Seeker, ReaderAt, WriterTo, ByteScanner
		return readerWrap{r: simnet.NewFatLink(l)}
	case "limited":
		// the concrete type *io.LimitedReader with room to spare: code that inspects or
		// adjusts the limit of the reader it was given meets it here
		return readerWrap{r: &io.LimitedReader{R: struct{ io.Reader }{l}, N: int64(len(l.Data)) + 1<<20}}
	case "limited-tight":
		// the limit runs out exactly where the stream would end or fail
		return readerWrap{r: &io.LimitedReader{R: struct{ io.Reader }{l}, N: int64(l.Deliverable())}}
	case "bytesreader", "bytesbuffer":
		// concrete standard-library readers (Len(), ReadByte, WriteTo, Seek ...) over what
		// the link would deliver; they cannot fail, so scenarios whose fault is an error
		// value rather than an end of stream use the plain reader
		if l.Fault == nil || l.Fault.Err == "eof" {
			data := l.Data[:l.Deliverable()]
			total := len(data)
			if kind == "bytesreader" {
				br := bytes.NewReader(data)
				return readerWrap{r: br, direct: func() int { return total - br.Len() }}
			}
			bb := bytes.NewBuffer(append([]byte(nil), data...))
			return readerWrap{r: bb, direct: func() int { return total - bb.Len() }}
		}
	}
	return readerWrap{r: struct{ io.Reader }{l}}
}

// decode runs one decoder of build b over data. For byte decoders data is placed in a
// guarded exact-capacity buffer. Budgets are relative to budgetLen wire bytes.
func (n *Node) decode(b *Build, typ, decoder string, data []byte, sched *simnet.Schedule, rf *simnet.ReadFault, reader string, budgetLen int) decOut {
	var out decOut
	t, _, err := n.typeOf(b, typ)
	if err != nil {
		out.Err = err
		out.NoSuch = true
		return out
	}
	alloc, steps := budgetsFor(b.Schema, budgetLen)
	simrt.SetMapOrder(simrt.OrderCanonical, 0)
	defer simrt.SetMapOrder(simrt.OrderNative, 0)
	// a receiver that was used before (n.prefill is set by the scenario's exec function)
	newRec := func() reg.Record {
		rec := t.New()
		if n.prefill != nil {
			pre := append([]byte(nil), n.prefill...)
			safeCall(0, 0, func() { _ = rec.UnmarshalBebop(pre) })
		}
		return rec
	}
	switch decoder {
	case "unmarshal":
		buf := n.guard.place(data)
		if n.spareTail != nil {
			whole := append(append(make([]byte, 0, len(data)+len(n.spareTail)), data...), n.spareTail...)
			buf = whole[:len(data)]
		}
		rec := newRec()
		out.Call = safeCall(alloc, steps, func() { out.Err = rec.UnmarshalBebop(buf) })
		out.Buf = buf
		out.Rec = rec
	case "mustunmarshal":
		if t.MustUnmarshal == nil {
			out.NoSuch = true
			return out
		}
		buf := n.guard.place(data)
		rec := t.New()
		out.Call = safeCall(alloc, steps, func() { t.MustUnmarshal(rec, buf) })
		out.Buf = buf
		out.Rec = rec
	case "makefrombytes":
		if t.MakeFromBytes == nil {
			out.NoSuch = true
			return out
		}
		buf := n.guard.place(data)
		out.Call = safeCall(alloc, steps, func() { out.Rec, out.Err = t.MakeFromBytes(buf) })
		out.Buf = buf
	case "mustmakefrombytes":
		if t.MustMakeFromBytes == nil {
			out.NoSuch = true
			return out
		}
		buf := n.guard.place(data)
		out.Call = safeCall(alloc, steps, func() { out.Rec = t.MustMakeFromBytes(buf) })
		out.Buf = buf
	case "decode", "make":
		if decoder == "make" && t.Make == nil {
			out.NoSuch = true
			return out
		}
		sc := simnet.Schedule{}
		if sched != nil {
			sc = *sched
		}
		out.Link = simnet.NewLink(data, sc, rf)
		rw := wrapReader(reader, out.Link)
		if decoder == "decode" {
			rec := newRec()
			out.Call = safeCall(alloc, steps, func() { out.Err = rec.DecodeBebop(rw.r) })
			out.Rec = rec
		} else {
			out.Call = safeCall(alloc, steps, func() { out.Rec, out.Err = t.Make(rw.r) })
		}
		out.Consumed = rw.consumed(out.Link)
		if rw.direct != nil {
			// keep the link's own account in step for the oracles that read it
			out.Link.Pos = out.Consumed
		}
	default:
		out.Err = fmt.Errorf("unknown decoder %q", decoder)
		out.NoSuch = true
	}
	return out
}

// ---------------------------------------------------------------------------------
// violations

func recordKind(s *schema.Schema, typ string) string {
	if d := s.Lookup(typ); d != nil {
		return d.Kind.String()
	}
	return "?"
}

// callViolation turns a panicking call into a violation (nil if the call returned).
func callViolation(cr *callResult, sc *Scenario, s *schema.Schema, op string) *Violation {
	if !cr.Panicked {
		return nil
	}
	where, stmt, top := site(cr.Frames)
	class := "panic"
	detail := cr.PanicText()
	if cr.Sentinel != nil {
		class = cr.Sentinel.Kind
	}
	v := &Violation{Class: class, Detail: clipStr(detail, 300), Stack: top, Stmt: stmt,
		Facts: map[string]string{"op": op, "record_kind": recordKind(s, sc.Type), "where": where}}
	v.Signature = fmt.Sprintf("%s|%s|%s|%s|%s", class, op, v.Facts["record_kind"], where, stmt)
	return v
}

func clipStr(s string, n int) string {
	if len(s) > n {
		return s[:n] + "..."
	}
	return s
}

func mismatch(sig, detail string, facts map[string]string) *Violation {
	return &Violation{Class: "mismatch", Signature: "mismatch|" + sig, Detail: clipStr(detail, 400), Facts: facts}
}

// pathShape erases indices and names from a Diff path: "$.abc[3]{0a}<Foo>.x" -> "$.f[]{}<>.f"
var (
	rePathField = regexp.MustCompile(`\.[A-Za-z0-9_]+`)
	rePathIdx   = regexp.MustCompile(`\[\d+\]`)
	rePathKey   = regexp.MustCompile(`\{[^}]*\}`)
	rePathBr    = regexp.MustCompile(`<[^>]*>`)
)

func pathShape(diff string) string {
	p := diff
	if i := strings.Index(p, ": "); i >= 0 {
		p = p[:i]
	}
	p = rePathField.ReplaceAllString(p, ".f")
	p = rePathIdx.ReplaceAllString(p, "[]")
	p = rePathKey.ReplaceAllString(p, "{}")
	p = rePathBr.ReplaceAllString(p, "<>")
	return p
}

var reQuoted = regexp.MustCompile(`"(?:[^"\\]|\\.)*"`)
var reNumber = regexp.MustCompile(`^(0x[0-9a-f]+|-?\d+|".*"|true|false|!=)$`)

// diffWhat names the kind of difference without the values involved.
func diffWhat(diff string) string {
	if i := strings.Index(diff, ": "); i >= 0 {
		var keep []string
		// quoted values may hold blanks: drop them whole before splitting
		for _, f := range strings.Fields(reQuoted.ReplaceAllString(diff[i+2:], "")) {
			if reNumber.MatchString(f) {
				continue
			}
			keep = append(keep, f)
			if len(keep) == 3 {
				break
			}
		}
		return strings.Join(keep, " ")
	}
	return diff
}

// refRoundTrip checks that data is exactly a conformant encoding of want (normalised):
// it decodes strictly with the reference codec, compares trees (maps as multisets) and
// re-encodes under the recovered entry order, which must reproduce data byte for byte.
func refRoundTrip(s *schema.Schema, typ string, data []byte, want val.Value) string {
	t := schema.Type{Named: typ}
	got, used, err := refcodec.Decode(s, t, data)
	if err != nil {
		return "reference decoder rejects the bytes: " + err.Error()
	}
	if used != len(data) {
		return fmt.Sprintf("reference decoder consumed %d of %d bytes", used, len(data))
	}
	if d := val.Diff(s, t, want, val.Canon(s, t, got)); d != "" {
		return "reference decoding differs from the value sent: " + d
	}
	re := refcodec.Encode(s, t, got)
	if !bytes.Equal(re, data) {
		return fmt.Sprintf("bytes are not the canonical encoding of their own content (first difference at %d)", firstDiff(re, data))
	}
	return ""
}

func firstDiff(a, b []byte) int {
	n := len(a)
	if len(b) < n {
		n = len(b)
	}
	for i := 0; i < n; i++ {
		if a[i] != b[i] {
			return i
		}
	}
	return n
}
