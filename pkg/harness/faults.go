package harness

import (
	"bytes"
	"fmt"
	"io"
	"net"
	"os"
	"sort"
	"verif/pkg/reg"

	"verif/pkg/prng"
	"verif/pkg/refcodec"
	"verif/pkg/schema"
	"verif/pkg/simnet"
	"verif/pkg/val"
	"verif/simrt"
)

// ---------------------------------------------------------------------------------
// C05: stream decoding consumes exactly one record (record histories on one link)

func init() {
	props["C05"] = runC05
	execs["history"] = execHistory
}

func runC05(c *Ctx) *Replay {
	cfg := val.DefaultCfg()
	cfg.LongProb = 60
	cfg.FullMsg = 30
	pk := c.pickRecord(cfg)
	if pk == nil {
		c.Count("no_record", 1)
		return nil
	}
	b := pk.B
	nrec := c.R.Range(1, 6)
	sc := Scenario{Kind: "history", Prog: b.Prog.ID, Mask: b.Mask, PeerMask: -1, Type: pk.Type, Order: drawOrder(c.R), Trail: c.R.Range(0, 9)}
	recs := b.Schema.Records()
	for i := 0; i < nrec; i++ {
		typ := pk.Type
		if c.R.Chance(1, 2) {
			d := recs[c.R.Intn(len(recs))]
			if b.Types[d.Name] != nil && pk.Gen.Inhabited(d.Name) {
				typ = d.Name
			}
		}
		sc.Types = append(sc.Types, typ)
		sc.Values = append(sc.Values, pk.Gen.Record(typ))
	}
	if len(c.N.OldOf[b.Prog.ID]) > 0 && c.R.Chance(1, 2) {
		ob := c.N.OldOf[b.Prog.ID][c.R.Intn(len(c.N.OldOf[b.Prog.ID]))]
		sc.OldPeer, sc.PeerMask = true, ob.Mask
	}
	c.Log("C05", b.Name(), sc.Types)
	// wire image for boundary-aware schedules
	var all []byte
	var spans []refcodec.Span
	for i := range sc.Values {
		t := schema.Type{Named: sc.Types[i]}
		d, sp := refcodec.EncodeSpans(b.Schema, t, val.Normalise(b.Schema, t, sc.Values[i]))
		for j := range sp {
			sp[j].Start += len(all)
			sp[j].End += len(all)
		}
		all = append(all, d...)
		spans = append(spans, sp...)
	}
	c.Sample(map[string]interface{}{"program": b.Name(), "records": sc.Types, "stream_len": len(all), "old_reader": sc.OldPeer})
	scheds := []*simnet.Schedule{
		{Name: "all"}, {Name: "1-byte", Repeat: 1},
		scheduleBoundaries("straddle", len(all), spans, 1+c.R.Intn(3)),
		scheduleBoundaries("align", len(all), spans, 0),
		drawSchedule(c.R, len(all), spans), drawSchedule(c.R, len(all), spans),
	}
	for i, s := range scheds {
		x := sc
		x.Sched = s
		x.Reader = readerKinds[(i+c.R.Intn(len(readerKinds)))%len(readerKinds)]
		x.Writer = writerKinds[c.R.Intn(len(writerKinds))]
		x.Again = c.R.Chance(1, 3)
		x.Reuse = c.R.Chance(1, 3)
		if x.Reuse {
			c.Count("reused_receivers", 1)
		}
		if !x.Again && c.R.Chance(1, 3) {
			x.Overlap = c.R.Range(1, 12)
		}
		x.Decoder = []string{"decode", "make"}[c.R.Intn(2)]
		viol := execHistory(c.N, &x)
		c.Count("evaluations", 1)
		c.Count("sched:"+s.Name, 1)
		c.Count("reader:"+x.Reader, 1)
		c.Count("records", int64(len(sc.Values)))
		c.State("c05", fmt.Sprint(len(sc.Values)), s.Name, x.Reader, recordKind(b.Schema, sc.Types[0]), fmt.Sprint(sc.OldPeer))
		c.Log(i, viol == nil)
		if viol != nil {
			return c.shrinkAndReport(&x, viol)
		}
	}
	// values with two map keys that are ONE date on the wire (position only: c05dup.go)
	for i := range sc.Values {
		if !b.Schema.HasDateKey(schema.Type{Named: sc.Types[i]}) {
			continue
		}
		d := Scenario{Kind: "dupkeys", Prog: b.Prog.ID, Mask: b.Mask, PeerMask: -1, Type: sc.Types[i], Value: &sc.Values[i], Order: drawOrder(c.R),
			Sched: drawSchedule(c.R, 0, nil), Reader: readerKinds[c.R.Intn(len(readerKinds))]}
		viol := execDupKeys(c.N, &d)
		if d.Extra["skipped"] != "" {
			continue
		}
		c.Count("evaluations", 1)
		c.Count("dup_date_keys", 1)
		c.State("c05d", recordKind(b.Schema, sc.Types[i]), d.Reader)
		if viol != nil {
			return c.shrinkAndReport(&d, viol)
		}
	}
	return nil
}

// overlapViol carries what went wrong for the second caller of an overlapping history.
var overlapViol *Violation

func execHistory(n *Node, sc *Scenario) *Violation {
	sb := n.Build(sc.Prog, sc.Mask, false)
	rb := n.receiver(sc)
	if sb == nil || rb == nil {
		note(sc, "skipped", "build absent")
		return nil
	}
	sink := simnet.NewSink(nil)
	// the sending side writes the whole history through ONE writer: the sink itself, or a
	// writer of the given kind that the sender made once and keeps using
	var hw io.Writer = sink
	if sc.Writer != "" && sc.Writer != "plain" {
		hw = wrapWriter(sc.Writer, sink)
	}
	var bounds []int
	var wants []val.Value
	simrt.SetMapOrder(sc.Order.Strategy, sc.Order.Seed)
	for i := range sc.Values {
		if i >= len(sc.Types) {
			break
		}
		rec, err := n.fill(sb, sc.Types[i], sc.Values[i])
		if err != nil {
			simrt.SetMapOrder(simrt.OrderNative, 0)
			return mismatch("bridge|fill", err.Error(), nil)
		}
		var eerr error
		cr := safeCall(0, 0, func() { eerr = rec.EncodeBebop(hw) })
		if v := callViolation(&cr, sc, sb.Schema, "encode"); v != nil {
			simrt.SetMapOrder(simrt.OrderNative, 0)
			return v
		}
		if eerr != nil {
			simrt.SetMapOrder(simrt.OrderNative, 0)
			return mismatch("encode-error", eerr.Error(), nil)
		}
		bounds = append(bounds, len(sink.Buf))
		t := schema.Type{Named: sc.Types[i]}
		w := val.Normalise(sb.Schema, t, sc.Values[i])
		if sc.OldPeer {
			w = val.Restrict(sb.Schema, rb.Schema, t, w)
		}
		wants = append(wants, w)
	}
	simrt.SetMapOrder(simrt.OrderNative, 0)
	data := append([]byte(nil), sink.Buf...)
	for i := 0; i < sc.Trail; i++ {
		data = append(data, 0xEE)
	}
	s := simnet.Schedule{}
	if sc.Sched != nil {
		s = *sc.Sched
	}
	alloc, steps := budgetsFor(rb.Schema, len(data))
	simrt.SetMapOrder(simrt.OrderCanonical, 0)
	defer simrt.SetMapOrder(simrt.OrderNative, 0)
	if sc.Again && len(bounds) > 0 {
		// an earlier stream of this receiver ended: decodes of every record type of the
		// history on a stream with nothing (left) in it, and on one that is cut short; what
		// they return is their business, what they leave behind must not touch what follows
		for i := range bounds {
			if t, _, err := n.typeOf(rb, sc.Types[i]); err == nil {
				for _, pre := range [][]byte{nil, data[:bounds[i]/2]} {
					l0 := simnet.NewLink(pre, simnet.Schedule{}, nil)
					r0 := wrapReader(sc.Reader, l0)
					rec := t.New()
					safeCall(alloc, steps, func() { _ = rec.DecodeBebop(r0.r) })
				}
			}
		}
	}
	link := simnet.NewLink(data, s, nil)
	rw := wrapReader(sc.Reader, link)
	if sc.Overlap > 0 && !sc.Again {
		// a second caller: the same history from a stream of its own, decoded while the first
		// caller is inside a Read (synchronous decoders can only be overtaken there). What
		// the second caller gets is judged by running this scenario on its stream alone.
		fired := false
		link.Hook = func(call int) {
			if fired || call < sc.Overlap {
				return
			}
			fired = true
			other := *sc
			other.Overlap, other.Reader, other.Sched = 0, "plain", &simnet.Schedule{Name: "all"}
			if v := execHistory(n, &other); v != nil && overlapViol == nil {
				v.Signature += "|second-caller"
				overlapViol = v
			}
			simrt.SetMapOrder(simrt.OrderCanonical, 0)
		}
		defer func() { overlapViol = nil }()
	}
	reused := map[string]reg.Record{}
	for i := range bounds {
		if overlapViol != nil {
			return overlapViol
		}
		typ := sc.Types[i]
		t, _, err := n.typeOf(rb, typ)
		if err != nil {
			note(sc, "skipped", err.Error())
			return nil
		}
		rec := t.New()
		stale := false
		if sc.Reuse && !(sc.Decoder == "make" && t.Make != nil) {
			// the caller's read loop decodes every record of a type into the SAME variable
			if prev := reused[typ]; prev != nil {
				rec = prev
				// messages and unions keep what the wire does not mention (section 13): after a
				// first use only records made of structs all the way down are compared by value
				stale = holdsMessageOrUnion(rb.Schema, typ, map[string]bool{})
			}
			reused[typ] = rec
		}
		var derr error
		var cr callResult
		if sc.Decoder == "make" && t.Make != nil {
			cr = safeCall(alloc, steps, func() { rec, derr = t.Make(rw.r) })
		} else {
			cr = safeCall(alloc, steps, func() { derr = rec.DecodeBebop(rw.r) })
		}
		if v := callViolation(&cr, sc, rb.Schema, "decode"); v != nil {
			return v
		}
		kind := recordKind(rb.Schema, typ)
		if derr != nil {
			return mismatch("history-decode-error|"+kind, fmt.Sprintf("record %d of %d (%s): decoder failed on a healthy stream: %v", i, len(bounds), typ, derr),
				map[string]string{"record_kind": kind, "reader": sc.Reader})
		}
		consumed := rw.consumed(link)
		if consumed != bounds[i] {
			class, dir := "overread", "more"
			if consumed < bounds[i] {
				class, dir = "underread", "fewer"
			}
			return &Violation{Class: class, Signature: class + "|decode|" + kind,
				Detail: fmt.Sprintf("record %d of %d (%s): decoder consumed %d bytes, %s than the record's end at %d (reader kind %s, schedule %s)", i, len(bounds), typ, consumed, dir, bounds[i], sc.Reader, s.Name),
				Facts:  map[string]string{"record_kind": kind, "reader": sc.Reader, "old_reader": fmt.Sprint(sc.OldPeer)}}
		}
		if stale {
			continue
		}
		got, _, err := n.readBack(rb, typ, rec)
		if err != nil {
			return mismatch("bridge|read", err.Error(), nil)
		}
		tt := schema.Type{Named: typ}
		if d := val.Diff(rb.Schema, tt, wants[i], val.Canon(rb.Schema, tt, got)); d != "" {
			return mismatch("history-value|"+kind+"|"+pathShape(d)+"|"+diffWhat(d), fmt.Sprintf("record %d of %d (%s): %s", i, len(bounds), typ, d),
				map[string]string{"record_kind": kind, "path": pathShape(d), "old_reader": fmt.Sprint(sc.OldPeer)})
		}
		// bytes consumed == Size() of the decoded value (when nothing was dropped in transit)
		if !sc.OldPeer && !hasDeprecated(rb.Schema, typ, map[string]bool{}) {
			start := 0
			if i > 0 {
				start = bounds[i-1]
			}
			var sz int
			cr := safeCall(0, 0, func() { sz = rec.Size() })
			if v := callViolation(&cr, sc, rb.Schema, "size"); v != nil {
				return v
			}
			if sz != bounds[i]-start {
				return mismatch("history-size|"+kind, fmt.Sprintf("record %d (%s): consumed %d bytes but Size() of the decoded value is %d", i, typ, bounds[i]-start, sz), nil)
			}
		}
	}
	return nil
}

// holdsMessageOrUnion reports whether a record of the type is, or holds at any depth, a
// message or a union.
func holdsMessageOrUnion(s *schema.Schema, typ string, seen map[string]bool) bool {
	d := s.Lookup(typ)
	if d == nil || seen[typ] {
		return false
	}
	if d.Kind == schema.KMessage || d.Kind == schema.KUnion {
		return true
	}
	seen[typ] = true
	var walk func(t schema.Type) bool
	walk = func(t schema.Type) bool {
		switch {
		case t.Array != nil:
			return walk(*t.Array)
		case t.MapV != nil:
			return walk(*t.MapV)
		case t.Named != "":
			return holdsMessageOrUnion(s, t.Named, seen)
		}
		return false
	}
	for _, f := range d.Fields {
		if walk(f.Type) {
			return true
		}
	}
	return false
}

func hasDeprecated(s *schema.Schema, typ string, seen map[string]bool) bool {
	d := s.Lookup(typ)
	if d == nil || seen[typ] {
		return false
	}
	seen[typ] = true
	var walk func(t schema.Type) bool
	walk = func(t schema.Type) bool {
		switch {
		case t.Array != nil:
			return walk(*t.Array)
		case t.MapV != nil:
			return walk(*t.MapV)
		case t.Named != "":
			return hasDeprecated(s, t.Named, seen)
		}
		return false
	}
	for _, f := range d.Fields {
		if (d.Kind == schema.KMessage && f.Deprecated) || walk(f.Type) {
			return true
		}
	}
	for _, b := range d.Branches {
		if hasDeprecated(s, b.Def.Name, seen) {
			return true
		}
	}
	return false
}

// ---------------------------------------------------------------------------------
// C06: every strict prefix of a valid encoding is an error, never a crash

func init() {
	props["C06"] = runC06
	execs["truncate"] = execTruncate
}

// cutPoints lists the cut offsets to enumerate for an encoding of length n.
func cutPoints(r *prng.Rand, n int, spans []refcodec.Span, all int) []int {
	if n <= all {
		out := make([]int, n)
		for i := range out {
			out[i] = i
		}
		return out
	}
	set := map[int]bool{0: true, n - 1: true}
	for _, sp := range spans {
		for _, k := range []int{sp.Start - 1, sp.Start, sp.Start + 1, sp.End - 1, sp.End} {
			if k >= 0 && k < n {
				set[k] = true
			}
		}
		if len(set) > 3000 {
			break
		}
	}
	for i := 0; i < 64; i++ {
		set[r.Intn(n)] = true
	}
	out := make([]int, 0, len(set))
	for k := range set {
		out = append(out, k)
	}
	sort.Ints(out)
	// the work per value stays bounded: about 40 MB of input bytes over all cuts
	limit := 40_000_000 / (n + 1)
	if limit < 48 {
		limit = 48
	}
	if len(out) > limit {
		for i := 0; i < limit; i++ {
			j := i + r.Intn(len(out)-i)
			out[i], out[j] = out[j], out[i]
		}
		out = out[:limit]
		sort.Ints(out)
	}
	return out
}

func elemKindAt(spans []refcodec.Span, off int) string {
	if sp := refcodec.SpanAt(spans, off); sp != nil {
		return sp.Kind
	}
	return "none"
}

func runC06(c *Ctx) *Replay {
	defer armEncCache()()
	cfg := val.DefaultCfg()
	cfg.LongProb = 80
	cfg.LongLen = 5000
	if c.R.Chance(1, 16) {
		// payloads beyond 64 KiB, where stream decoders stop trusting the length prefix
		cfg.Ladder, cfg.LadderBig = 3, 2
	} else if c.R.Chance(1, 40) {
		// GIANT arrays of scalars (2^17 elements): what a decoder allocates for the count
		// alone, before the elements arrive, shows against the few bytes of a short prefix
		cfg.Giant = 2
	}
	if c.Run%12 == 5 {
		// a fixed share of the runs goes to the chains of structs that hold nothing but
		// structs (declared bottom-up, top-down and mixed): arrays of them are where a count
		// guard depends on an analysis of the whole file
		c.onlyProgram = "wrappers"
		defer func() { c.onlyProgram = "" }()
		c.Count("runs_on_wrapper_chains", 1)
	}
	var pk *pick
	for try := 0; try < 20; try++ {
		pk = c.pickRecord(cfg)
		if pk == nil || !pk.B.Schema.HasZeroSizeElem(schema.Type{Named: pk.Type}) {
			break
		}
		pk = nil
	}
	if pk == nil {
		c.Count("no_record", 1)
		return nil
	}
	b := pk.B
	t := schema.Type{Named: pk.Type}
	v := pk.Gen.Record(pk.Type)
	data, spans := refcodec.EncodeSpans(b.Schema, t, val.Normalise(b.Schema, t, v))
	c.Log("C06", b.Name(), pk.Type, len(data))
	shape := b.Schema.DefShape(pk.Def, 0)
	c.Sample(map[string]interface{}{"program": b.Name(), "type": pk.Type, "shape": shape, "wire_len": len(data), "cuts": "every k < len (<=4096) x {unmarshal, decode/all, decode/chunked}"})
	if len(data) == 0 {
		c.Count("empty_encoding", 1)
		return nil
	}
	c.Count("values", 1)
	cuts := cutPoints(c.R, len(data), spans, 1200)
	chunked := drawSchedule(c.R, len(data), spans)
	// a third of the values of an evolved program are read by the older schema: a prefix of
	// the newer encoding is cut short for that reader too (the length prefixes cover the
	// fields it skips)
	oldPeer, peerMask := false, -1
	if obs := c.N.OldOf[b.Prog.ID]; len(obs) > 0 && c.R.Chance(1, 3) {
		ob := obs[c.R.Intn(len(obs))]
		if ob.Types[pk.Type] != nil {
			oldPeer, peerMask = true, ob.Mask
			c.Count("old_reader_values", 1)
		}
	}
	reader := readerKinds[c.R.Intn(len(readerKinds))]
	errName := []string{"eof", "eof", "unexpected-eof"}[c.R.Intn(3)]
	for _, k := range cuts {
		ek := elemKindAt(spans, k)
		for vi, variant := range []string{"unmarshal", "decode", "decode-chunked", "makefrombytes", "reuse", "sparecap"} {
			if vi == 3 && k%7 != 0 {
				continue
			}
			if vi == 5 && k%3 != 0 {
				continue
			}
			sc := Scenario{Kind: "truncate", Prog: b.Prog.ID, Mask: b.Mask, PeerMask: peerMask, OldPeer: oldPeer, Type: pk.Type, Value: &v, Cut: k, Decoder: variant}
			switch variant {
			case "sparecap":
				// the prefix is a short VIEW of a buffer that holds the whole encoding: what
				// lies beyond len() is not input
				sc.SpareCap = true
				sc.Decoder = "unmarshal"
			case "reuse":
				// the receiver is not fresh: the COMPLETE encoding was decoded into it before
				// (a receive loop that keeps one record value); byte and stream path in turn
				sc.Reuse = true
				sc.Decoder = "unmarshal"
				if k%2 == 1 {
					sc.Decoder = "decode"
					sc.Sched = &simnet.Schedule{Name: "all"}
					sc.Reader = "plain"
					sc.RFault = &simnet.ReadFault{At: k, Err: "eof"}
				}
			case "decode":
				sc.Sched = &simnet.Schedule{Name: "all"}
				sc.Reader = "plain"
				sc.RFault = &simnet.ReadFault{At: k, Err: "eof"}
			case "decode-chunked":
				sc.Decoder = "decode"
				sc.Sched = chunked
				sc.Reader = reader
				sc.RFault = &simnet.ReadFault{At: k, Err: errName, Partial: k%2 == 1}
				if k%5 == 3 {
					sc.Reader, sc.RFault = "limited-cut", nil
				}
			}
			viol := execTruncate(c.N, &sc)
			c.Count("evaluations", 1)
			c.Count("fault:truncate-"+variant, 1)
			c.Count("elem:"+ek, 1)
			c.State("c06", shape, ek, variant)
			if viol != nil {
				viol.Elem = ek
				c.Log(k, variant, viol.Signature)
				if rp := c.shrinkAndReport(&sc, viol); rp != nil {
					return rp
				}
			}
		}
	}
	// the same value as the head of a GIANT one: a count of elements of fixed size is set to
	// 2^20..2^24 (enclosing lengths adjusted), cuts lie in the count and in the elements
	// that are present. Everything announced is honest, so whatever a decoder allocates for
	// the count alone shows against the few bytes it was given.
	if ng := refcodec.EligibleGiants(spans); ng > 0 && c.R.Chance(1, 2) {
		g := &Giant{Which: c.R.Intn(ng), N: []int{1<<22 + 1, 1<<23 + 7, 1<<24 - 1}[c.R.Intn(3)]}
		if gd, cs, ok := refcodec.GiantPrefix(data, spans, g.Which, g.N); ok {
			set := map[int]bool{}
			for k := cs.Start; k <= cs.End+2*cs.Fixed && k < len(gd); k++ {
				set[k] = true
			}
			for k := len(gd) - 1; k >= cs.End && k >= len(gd)-1-cs.Fixed; k-- {
				set[k] = true
			}
			var gcuts []int
			for k := range set {
				gcuts = append(gcuts, k)
			}
			sort.Ints(gcuts)
			c.Count("giant_values", 1)
			for _, k := range gcuts {
				for _, variant := range []string{"unmarshal", "decode", "decode-chunked"} {
					sc := Scenario{Kind: "truncate", Prog: b.Prog.ID, Mask: b.Mask, PeerMask: peerMask, OldPeer: oldPeer, Type: pk.Type, Value: &v, Cut: k, Decoder: variant, Giant: g}
					switch variant {
					case "decode":
						sc.Sched = &simnet.Schedule{Name: "all"}
						sc.Reader = "plain"
						sc.RFault = &simnet.ReadFault{At: k, Err: "eof"}
					case "decode-chunked":
						sc.Decoder = "decode"
						sc.Sched = chunked
						sc.Reader = reader
						sc.RFault = &simnet.ReadFault{At: k, Err: errName, Partial: k%2 == 1}
					}
					viol := execTruncate(c.N, &sc)
					c.Count("evaluations", 1)
					c.Count("fault:giant-truncate-"+variant, 1)
					c.State("c06g", shape, fmt.Sprint(k-cs.Start), variant)
					if viol != nil {
						c.Log("giant", k, variant, viol.Signature)
						if rp := c.shrinkAndReport(&sc, viol); rp != nil {
							return rp
						}
					}
				}
			}
		}
	}
	c.Log("done")
	return nil
}

// validEncoding is the reference encoding of the scenario's value.
func validEncoding(b *Build, sc *Scenario) ([]byte, []refcodec.Span) {
	t := schema.Type{Named: sc.Type}
	// the enumeration loops hand the same *Value to thousands of faulted runs: its encoding
	// is computed once (the cache is keyed by the pointer and dropped before any shrinking,
	// which works on copies)
	if ec := &encCache; ec.val == sc.Value && ec.build == b && ec.typ == sc.Type {
		return ec.data, ec.spans
	}
	data, spans := refcodec.EncodeSpans(b.Schema, t, val.Normalise(b.Schema, t, *sc.Value))
	if encCache.armed {
		encCache.val, encCache.build, encCache.typ, encCache.data, encCache.spans = sc.Value, b, sc.Type, data, spans
	}
	return data, spans
}

var encCache struct {
	armed bool
	val   *val.Value
	build *Build
	typ   string
	data  []byte
	spans []refcodec.Span
}

// armEncCache switches the one-entry encoding cache on for an enumeration loop; the
// returned function switches it off and forgets the entry.
func armEncCache() func() {
	encCache.armed = true
	return func() {
		encCache.armed = false
		encCache.val, encCache.build, encCache.data, encCache.spans = nil, nil, nil, nil
	}
}

func execTruncate(n *Node, sc *Scenario) *Violation {
	b := n.Build(sc.Prog, sc.Mask, false)
	if b == nil {
		note(sc, "skipped", "build absent")
		return nil
	}
	data, spans := validEncoding(b, sc)
	if len(data) == 0 {
		return nil
	}
	if sc.Giant != nil {
		gd, _, ok := refcodec.GiantPrefix(data, spans, sc.Giant.Which, sc.Giant.N)
		if !ok {
			note(sc, "skipped", "no such count to inflate")
			return nil
		}
		data = gd
	}
	k := sc.Cut
	if k >= len(data) {
		k = len(data) - 1 // after shrinking the value the cut is clamped into the encoding
	}
	ek := elemKindAt(spans, k)
	kind := recordKind(b.Schema, sc.Type)
	rb := n.receiver(sc)
	if rb == nil {
		note(sc, "skipped", "receiver build absent")
		return nil
	}
	var do decOut
	if sc.Reuse {
		n.prefill = data
		if sc.Giant != nil {
			n.prefill, _ = validEncoding(b, sc)
		}
		defer func() { n.prefill = nil }()
	}
	if isStreamDecoder(sc.Decoder) && sc.Reader == "limited-cut" {
		// the prefix is a frame the caller cut out of a longer stream with an
		// *io.LimitedReader: the stream itself goes on behind the limit
		longer := append(append([]byte(nil), data...), 0x01, 0x00, 0x00, 0x00, 0x01, 0xEE, 0xEE, 0xEE)
		do = n.decode(rb, sc.Type, sc.Decoder, longer, sc.Sched, nil, fmt.Sprintf("limited-cut:%d", k), k)
		if !do.NoSuch && do.Link != nil && do.Link.Pos > k && do.Call.Panicked == false && do.Err != nil {
			// an error is reported, but bytes beyond the caller's limit were taken
			return &Violation{Class: "overread", Signature: "overread|truncate-limited|" + kind,
				Detail: fmt.Sprintf("%s of a frame limited to %d bytes took %d bytes from the stream under the caller's io.LimitedReader", sc.Decoder, k, do.Link.Pos),
				Facts:  map[string]string{"op": sc.Decoder, "record_kind": kind}}
		}
	} else if isStreamDecoder(sc.Decoder) {
		rf := &simnet.ReadFault{At: k, Err: "eof"}
		if sc.RFault != nil {
			rf = &simnet.ReadFault{At: k, Err: sc.RFault.Err, Partial: sc.RFault.Partial}
		}
		// budgets are relative to the bytes GIVEN (the first k), as the property says, not
		// to the length of the complete encoding
		do = n.decode(rb, sc.Type, sc.Decoder, data, sc.Sched, rf, sc.Reader, k)
	} else {
		if sc.SpareCap {
			n.spareTail = data[k:]
		}
		do = n.decode(rb, sc.Type, sc.Decoder, data[:k], nil, nil, "", k)
		n.spareTail = nil
	}
	if do.NoSuch {
		note(sc, "skipped", "decoder not generated")
		return nil
	}
	if v := callViolation(&do.Call, sc, b.Schema, sc.Decoder); v != nil {
		v.Elem = ek
		v.Facts["elem"] = ek
		return v
	}
	if do.Err == nil {
		return &Violation{Class: "nil-error", Signature: "nil-error|truncate|" + sc.Decoder + "|" + kind + "|" + ek, Elem: ek,
			Detail: fmt.Sprintf("%s of the first %d of %d bytes of a valid %s encoding returned nil", sc.Decoder, k, len(data), sc.Type),
			Facts:  map[string]string{"op": sc.Decoder, "record_kind": kind, "elem": ek, "old_reader": fmt.Sprint(sc.OldPeer)}}
	}
	return nil
}

// ---------------------------------------------------------------------------------
// C08: I/O failures surface as errors

func init() {
	props["C08"] = runC08
	execs["wfault"] = execWFault
	execs["rfault"] = execRFault
	execs["faulthistory"] = execFaultHistory
	execs["oswriter"] = execOSWriter
}

func runC08(c *Ctx) *Replay {
	defer armEncCache()()
	cfg := val.DefaultCfg()
	cfg.LongProb = 80
	cfg.LongLen = 2000
	cfg.FullMsg = 40
	if c.R.Chance(1, 16) {
		cfg.Ladder, cfg.LadderBig = 3, 2
	} else if c.R.Chance(1, 30) {
		// one GIANT array (2^17 scalars or 2^16 small records): payloads that readers fetch
		// in several steps, with the failure somewhere inside
		cfg.Giant = 2
	}
	var pk *pick
	for try := 0; try < 20; try++ {
		pk = c.pickRecord(cfg)
		if pk == nil || !pk.B.Schema.HasZeroSizeElem(schema.Type{Named: pk.Type}) {
			break
		}
		pk = nil
	}
	if pk == nil {
		c.Count("no_record", 1)
		return nil
	}
	b := pk.B
	t := schema.Type{Named: pk.Type}
	v := pk.Gen.Record(pk.Type)
	shape := b.Schema.DefShape(pk.Def, 0)
	c.Log("C08", b.Name(), pk.Type)
	base := Scenario{Prog: b.Prog.ID, Mask: b.Mask, PeerMask: -1, Type: pk.Type, Value: &v, Order: drawOrder(c.R)}
	// fault-free run gives W and B
	rec, err := c.N.fill(b, pk.Type, v)
	if err != nil {
		return c.shrinkAndReport(&base, mismatch("bridge|fill", err.Error(), nil))
	}
	eo := c.N.encode(rec, "encode", base.Order, nil, nil, "plain")
	if eo.Call.Panicked || eo.Err != nil {
		c.Count("faultfree_encode_failed", 1)
		return nil
	}
	W, B := len(eo.Sink.Calls), len(eo.Sink.Buf)
	c.Sample(map[string]interface{}{"program": b.Name(), "type": pk.Type, "shape": shape, "write_calls": W, "bytes": B,
		"faults": "every Write call k<W (bare+partial, permanent/transient), every read offset k<B (bare/partial, permanent/transient)"})
	// writer: every call index
	// every call index for ordinary values; for very large ones a stride keeps the bytes
	// encoded over all faulted runs near 40 MB
	stride := 1
	if maxW := 40_000_000/(B+1) + 64; W > maxW {
		stride = (W + maxW - 1) / maxW
	}
	for k := c.R.Intn(stride); k < W && k/stride < 3000; k += stride {
		for variant := 0; variant < 2; variant++ {
			sc := base
			sc.Kind = "wfault"
			sc.Writer = writerKinds[c.R.Intn(len(writerKinds))]
			sc.WFault = &simnet.WriteFault{Call: k, Err: simnet.WriteErrorNames[c.R.Intn(len(simnet.WriteErrorNames))]}
			if variant == 1 {
				sc.WFault.Partial = c.R.Intn(8)
				sc.WFault.Transient = c.R.Bool()
			}
			viol := execWFault(c.N, &sc)
			c.Count("evaluations", 1)
			fk := "write-call-bare"
			if variant == 1 {
				fk = "write-call-partial"
				if sc.WFault.Transient {
					fk = "write-call-transient"
				}
			}
			if sc.Extra["fired"] == "1" {
				c.Count("fault:"+fk, 1)
				c.State("c08w", shape, fk, sc.WFault.Err)
			} else {
				c.Count("fault_not_fired", 1)
			}
			if viol != nil {
				c.Log("w", k, viol.Signature)
				if rp := c.shrinkAndReport(&sc, viol); rp != nil {
					return rp
				}
			}
		}
	}
	// writer: sampled byte offsets
	for i := 0; i < 8 && B > 0; i++ {
		sc := base
		sc.Kind = "wfault"
		sc.Writer = "plain"
		sc.WFault = &simnet.WriteFault{Call: -1, Byte: c.R.Intn(B), Err: simnet.WriteErrorNames[c.R.Intn(len(simnet.WriteErrorNames))], Transient: c.R.Chance(1, 3)}
		viol := execWFault(c.N, &sc)
		c.Count("evaluations", 1)
		if sc.Extra["fired"] == "1" {
			c.Count("fault:write-byte", 1)
		}
		if viol != nil {
			if rp := c.shrinkAndReport(&sc, viol); rp != nil {
				return rp
			}
		}
	}
	// reader: every byte offset of the valid encoding; when the program has an older
	// version, half of the values are read by an old-schema peer (drained tails)
	if obs := c.N.OldOf[b.Prog.ID]; len(obs) > 0 && b.Types[pk.Type] != nil && c.R.Bool() {
		ob := obs[c.R.Intn(len(obs))]
		if ob.Types[pk.Type] != nil {
			base.OldPeer, base.PeerMask = true, ob.Mask
			c.Count("old_reader_values", 1)
		}
	}
	data, spans := refcodec.EncodeSpans(b.Schema, t, val.Normalise(b.Schema, t, v))
	chunked := drawSchedule(c.R, len(data), spans)
	for _, k := range cutPoints(c.R, len(data), spans, 2048) {
		ek := elemKindAt(spans, k)
		for variant := 0; variant < 3; variant++ {
			sc := base
			sc.Kind = "rfault"
			sc.Decoder = []string{"decode", "make"}[c.R.Intn(2)]
			sc.RFault = &simnet.ReadFault{At: k, Err: simnet.ReadErrorNames[c.R.Intn(len(simnet.ReadErrorNames))]}
			sc.Sched = &simnet.Schedule{Name: "all"}
			sc.Reader = "plain"
			fk := "read-bare"
			switch variant {
			case 1:
				sc.RFault.Partial = true
				sc.Sched = chunked
				sc.Reader = readerKinds[c.R.Intn(len(readerKinds))]
				fk = "read-partial"
			case 2:
				sc.RFault.Transient = true
				// a SHORT read with the error (fewer bytes than asked), after which the stream
				// goes on as if nothing had happened
				sc.RFault.Partial = c.R.Bool()
				sc.Sched = chunked
				if sc.RFault.Partial && c.R.Bool() {
					sc.Sched = &simnet.Schedule{Name: "all"}
				}
				fk = "read-transient"
			}
			viol := execRFault(c.N, &sc)
			c.Count("evaluations", 1)
			if sc.Extra["fired"] == "1" {
				c.Count("fault:"+fk, 1)
				c.Count("elem:"+ek, 1)
				c.State("c08r", shape, fk, ek)
			} else {
				c.Count("fault_not_fired", 1)
			}
			if viol != nil {
				viol.Elem = ek
				c.Log("r", k, viol.Signature)
				if rp := c.shrinkAndReport(&sc, viol); rp != nil {
					return rp
				}
			}
		}
	}
	// failing readers whose stream was never a valid encoding: counts and lengths that
	// announce more than was ever going to arrive, the failure right behind them
	if c.R.Chance(1, 4) && len(data) < 1<<16 {
		for i := 0; i < 6; i++ {
			in, desc := mutate(c.R, data, spans, nil)
			if len(in) == 0 {
				continue
			}
			for j := 0; j < 6; j++ {
				sc := base
				sc.OldPeer, sc.PeerMask = false, -1
				sc.Kind = "rfault"
				sc.Input, sc.Mutation = in, desc
				sc.Decoder = []string{"decode", "make"}[c.R.Intn(2)]
				at := c.R.Intn(len(in))
				if j < 2 {
					at = len(in) - 1 - j%len(in)
				}
				sc.RFault = &simnet.ReadFault{At: at, Err: simnet.ReadErrorNames[c.R.Intn(len(simnet.ReadErrorNames))], Partial: c.R.Bool()}
				sc.Sched = drawSchedule(c.R, len(in), nil)
				sc.Reader = readerKinds[c.R.Intn(len(readerKinds))]
				viol := execRFault(c.N, &sc)
				c.Count("evaluations", 1)
				if sc.Extra["fired"] == "1" {
					c.Count("fault:read-hostile-stream", 1)
					c.State("c08h", shape, mutClass(desc))
				} else {
					c.Count("fault_not_fired", 1)
				}
				if viol != nil {
					c.Log("h", desc, viol.Signature)
					if rp := c.shrinkAndReport(&sc, viol); rp != nil {
						return rp
					}
				}
			}
		}
	}
	// destinations that are operating-system objects (code may treat *os.File and net.Conn
	// specially): a healthy file, and files / pipes / connections on which every Write fails
	if c.R.Chance(1, 8) {
		for _, kind := range osWriterKinds {
			sc := base
			sc.Kind = "oswriter"
			sc.Extra = map[string]string{"os": kind}
			viol := execOSWriter(c.N, &sc)
			c.Count("evaluations", 1)
			c.Count("fault:os-"+kind, 1)
			c.State("c08os", shape, kind)
			if viol != nil {
				c.Log("os", kind, viol.Signature)
				if rp := c.shrinkAndReport(&sc, viol); rp != nil {
					return rp
				}
			}
		}
	}
	// HISTORIES under faults: 2-4 records through ONE writer / ONE reader the caller keeps,
	// the fault somewhere in the whole stream; every call is judged on its own
	if c.R.Chance(1, 3) {
		hs := Scenario{Kind: "faulthistory", Prog: b.Prog.ID, Mask: b.Mask, PeerMask: -1, Type: pk.Type, Order: drawOrder(c.R)}
		recs := b.Schema.Records()
		total := 0
		for i, nr := 0, c.R.Range(2, 4); i < nr; i++ {
			typ := pk.Type
			if c.R.Chance(1, 2) {
				d := recs[c.R.Intn(len(recs))]
				if b.Types[d.Name] != nil && pk.Gen.Inhabited(d.Name) && !b.Schema.HasZeroSizeElem(schema.Type{Named: d.Name}) {
					typ = d.Name
				}
			}
			hv := pk.Gen.Record(typ)
			hs.Types = append(hs.Types, typ)
			hs.Values = append(hs.Values, hv)
			ht := schema.Type{Named: typ}
			total += len(refcodec.Encode(b.Schema, ht, val.Normalise(b.Schema, ht, hv)))
		}
		if total > 0 && total < 1<<16 {
			for i := 0; i < 24; i++ {
				x := hs
				x.Writer = writerKinds[c.R.Intn(len(writerKinds))]
				x.Reader = readerKinds[c.R.Intn(len(readerKinds))]
				x.Sched = drawSchedule(c.R, total, nil)
				if i%2 == 0 {
					x.WFault = &simnet.WriteFault{Call: -1, Byte: c.R.Intn(total), Err: simnet.WriteErrorNames[c.R.Intn(len(simnet.WriteErrorNames))], Transient: c.R.Chance(1, 3), Partial: c.R.Intn(4)}
				} else {
					x.RFault = &simnet.ReadFault{At: c.R.Intn(total), Err: simnet.ReadErrorNames[c.R.Intn(len(simnet.ReadErrorNames))], Partial: c.R.Bool(), Transient: false}
					x.Decoder = []string{"decode", "make"}[c.R.Intn(2)]
				}
				viol := execFaultHistory(c.N, &x)
				c.Count("evaluations", 1)
				c.Count("fault:history-"+map[bool]string{true: "write", false: "read"}[i%2 == 0], 1)
				c.State("c08h", shape, fmt.Sprint(len(hs.Values)), fmt.Sprint(i%2), x.Extra["where"])
				if viol != nil {
					c.Log("h", i, viol.Signature)
					if rp := c.shrinkAndReport(&x, viol); rp != nil {
						return rp
					}
				}
			}
		}
	}
	c.Log("done")
	return nil
}

var osWriterKinds = []string{"file-ok", "file-closed", "file-readonly", "devfull", "ospipe-closed", "netpipe-closed"}

// execOSWriter encodes the scenario's value onto a real operating-system object. For the
// healthy file the content must equal MarshalBebop; on the others EVERY Write fails, so an
// EncodeBebop that has anything to write must return an error.
func execOSWriter(n *Node, sc *Scenario) *Violation {
	b := n.Build(sc.Prog, sc.Mask, false)
	if b == nil {
		note(sc, "skipped", "build absent")
		return nil
	}
	rec, err := n.fill(b, sc.Type, *sc.Value)
	if err != nil {
		return mismatch("bridge|fill", err.Error(), nil)
	}
	m := n.encode(rec, "marshal", sc.Order, nil, nil, "")
	if m.Call.Panicked || len(m.Bytes) == 0 {
		return nil
	}
	kind := recordKind(b.Schema, sc.Type)
	how := sc.Extra["os"]
	var w io.Writer
	var cleanup []func()
	defer func() {
		for _, f := range cleanup {
			f()
		}
	}()
	var path string
	switch how {
	case "file-ok", "file-closed", "file-readonly":
		f, err := os.CreateTemp("", "verif-c08-")
		if err != nil {
			note(sc, "skipped", err.Error())
			return nil
		}
		path = f.Name()
		cleanup = append(cleanup, func() { os.Remove(path) })
		switch how {
		case "file-ok":
			cleanup = append(cleanup, func() { f.Close() })
			w = f
		case "file-closed":
			f.Close()
			w = f
		default:
			f.Close()
			ro, err := os.Open(path)
			if err != nil {
				note(sc, "skipped", err.Error())
				return nil
			}
			cleanup = append(cleanup, func() { ro.Close() })
			w = ro
		}
	case "devfull":
		f, err := os.OpenFile("/dev/full", os.O_WRONLY, 0)
		if err != nil {
			note(sc, "skipped", err.Error())
			return nil
		}
		cleanup = append(cleanup, func() { f.Close() })
		w = f
	case "ospipe-closed":
		pr, pw, err := os.Pipe()
		if err != nil {
			note(sc, "skipped", err.Error())
			return nil
		}
		pr.Close()
		cleanup = append(cleanup, func() { pw.Close() })
		w = pw
	case "netpipe-closed":
		c1, c2 := net.Pipe()
		c2.Close()
		cleanup = append(cleanup, func() { c1.Close() })
		w = c1
	default:
		return nil
	}
	simrt.SetMapOrder(sc.Order.Strategy, sc.Order.Seed)
	var eerr error
	cr := safeCall(0, 0, func() { eerr = rec.EncodeBebop(w) })
	simrt.SetMapOrder(simrt.OrderNative, 0)
	if v := callViolation(&cr, sc, b.Schema, "encode"); v != nil {
		return v
	}
	if how == "file-ok" {
		if eerr != nil {
			return mismatch("encode-error|osfile", "EncodeBebop onto a healthy file failed: "+eerr.Error(), nil)
		}
		got, _ := os.ReadFile(path)
		if !bytes.Equal(got, m.Bytes) {
			return mismatch("encode-nil-but-different|"+kind+"|osfile", fmt.Sprintf("EncodeBebop onto a file returned nil but the file holds %d bytes that differ from MarshalBebop (%d bytes) at %d", len(got), len(m.Bytes), firstDiff(m.Bytes, got)), nil)
		}
		return nil
	}
	if eerr == nil {
		return &Violation{Class: "nil-error", Signature: "nil-error|encode|" + kind + "|os-" + how,
			Detail: fmt.Sprintf("every Write on this destination fails (%s) and the record has %d bytes to write, but EncodeBebop of %s returned nil", how, len(m.Bytes), sc.Type),
			Facts:  map[string]string{"op": "encode", "record_kind": kind, "mode": how}}
	}
	return nil
}

// execFaultHistory sends (WFault) or receives (RFault) a history of records through one
// writer / reader of the scenario's kind. Every call is judged on what happened DURING it:
// a Write/Read that returned an error to it => it returns an error; an EncodeBebop that
// returns nil has appended exactly MarshalBebop; a DecodeBebop that returns nil before any
// failure has produced the value and consumed its record.
func execFaultHistory(n *Node, sc *Scenario) *Violation {
	b := n.Build(sc.Prog, sc.Mask, false)
	if b == nil {
		note(sc, "skipped", "build absent")
		return nil
	}
	var recs []reg.Record
	var want [][]byte
	for i := range sc.Values {
		if i >= len(sc.Types) {
			break
		}
		rec, err := n.fill(b, sc.Types[i], sc.Values[i])
		if err != nil {
			return mismatch("bridge|fill", err.Error(), nil)
		}
		m := n.encode(rec, "marshal", sc.Order, nil, nil, "")
		if v := callViolation(&m.Call, sc, b.Schema, "marshal"); v != nil {
			return v
		}
		recs = append(recs, rec)
		want = append(want, m.Bytes)
	}
	simrt.SetMapOrder(sc.Order.Strategy, sc.Order.Seed)
	defer simrt.SetMapOrder(simrt.OrderNative, 0)
	if sc.WFault != nil {
		sink := simnet.NewSink(sc.WFault)
		w := wrapWriter(sc.Writer, sink)
		for i, rec := range recs {
			kind := recordKind(b.Schema, sc.Types[i])
			errsBefore, lenBefore := sink.ErrCount, len(sink.Buf)
			var err error
			cr := safeCall(0, 0, func() { err = rec.EncodeBebop(w) })
			if v := callViolation(&cr, sc, b.Schema, "encode"); v != nil {
				return v
			}
			failedDuring := sink.ErrCount > errsBefore
			if failedDuring {
				note(sc, "where", fmt.Sprint("record-", i))
			}
			if failedDuring && err == nil {
				return &Violation{Class: "nil-error", Signature: "nil-error|encode-history|" + kind,
					Detail: fmt.Sprintf("record %d of %d (%s): a Write returned %q during this EncodeBebop (writer kind %s) but it returned nil", i, len(recs), sc.Types[i], simnet.ErrorByName(sc.WFault.Err), sc.Writer),
					Facts:  map[string]string{"op": "encode", "record_kind": kind}}
			}
			if err == nil && !bytes.Equal(sink.Buf[lenBefore:], want[i]) {
				return mismatch("encode-history-nil-but-different|"+kind, fmt.Sprintf("record %d of %d (%s): EncodeBebop returned nil but appended %d bytes where MarshalBebop has %d (an earlier call of this history met a failing Write: %v)", i, len(recs), sc.Types[i], len(sink.Buf)-lenBefore, len(want[i]), sink.ErrCount > 0), nil)
			}
		}
		return nil
	}
	var data []byte
	var bounds []int
	for _, wb := range want {
		data = append(data, wb...)
		bounds = append(bounds, len(data))
	}
	if len(data) == 0 {
		return nil
	}
	rf := *sc.RFault
	if rf.At >= len(data) {
		rf.At = len(data) - 1
	}
	s := simnet.Schedule{}
	if sc.Sched != nil {
		s = *sc.Sched
	}
	link := simnet.NewLink(data, s, &rf)
	rw := wrapReader(sc.Reader, link)
	alloc, steps := budgetsFor(b.Schema, len(data))
	simrt.SetMapOrder(simrt.OrderCanonical, 0)
	for i := range recs {
		typ := sc.Types[i]
		t, _, err := n.typeOf(b, typ)
		if err != nil {
			note(sc, "skipped", err.Error())
			return nil
		}
		kind := recordKind(b.Schema, typ)
		rec := t.New()
		erBefore := link.ErrReturned
		eofBefore := link.EOFReturned
		var derr error
		var cr callResult
		if sc.Decoder == "make" && t.Make != nil {
			cr = safeCall(alloc, steps, func() { rec, derr = t.Make(rw.r) })
		} else {
			cr = safeCall(alloc, steps, func() { derr = rec.DecodeBebop(rw.r) })
		}
		if v := callViolation(&cr, sc, b.Schema, "decode"); v != nil {
			return v
		}
		failedDuring := (link.ErrReturned && !erBefore) || (rf.Err == "eof" && link.FaultFired && link.EOFReturned && !eofBefore)
		if failedDuring {
			note(sc, "where", fmt.Sprint("record-", i))
			// an error that arrives TOGETHER with the last bytes this record needs (the byte
			// that is never delivered belongs to the next record) may be dropped: io.ReadFull
			// does so, and the record is complete
			if derr == nil && rf.At < bounds[i] {
				return &Violation{Class: "nil-error", Signature: "nil-error|decode-history|" + kind,
					Detail: fmt.Sprintf("record %d of %d (%s): the reader returned %q at byte %d during this DecodeBebop (reader kind %s) but it returned nil", i, len(recs), typ, simnet.ErrorByName(rf.Err), rf.At, sc.Reader),
					Facts:  map[string]string{"op": "decode", "record_kind": kind}}
			}
			return nil // what later calls do with a broken stream is not constrained
		}
		if link.ErrReturned || link.EOFReturned {
			return nil
		}
		if derr != nil {
			if bounds[i] > rf.At {
				return nil // a reader with read-ahead (bufio) met the fault while fetching for this record
			}
			return mismatch("history-decode-error|"+kind, fmt.Sprintf("record %d of %d (%s): decoder failed although the stream is intact up to byte %d and the record ends at %d: %v", i, len(recs), typ, rf.At, bounds[i], derr), map[string]string{"record_kind": kind})
		}
	}
	return nil
}

func execWFault(n *Node, sc *Scenario) *Violation {
	b := n.Build(sc.Prog, sc.Mask, false)
	if b == nil {
		note(sc, "skipped", "build absent")
		return nil
	}
	rec, err := n.fill(b, sc.Type, *sc.Value)
	if err != nil {
		return mismatch("bridge|fill", err.Error(), nil)
	}
	kind := recordKind(b.Schema, sc.Type)
	eo := n.encode(rec, "encode", sc.Order, nil, sc.WFault, sc.Writer)
	note(sc, "fired", "0")
	if eo.Sink != nil && eo.Sink.FaultFired {
		note(sc, "fired", "1")
	}
	if v := callViolation(&eo.Call, sc, b.Schema, "encode"); v != nil {
		return v
	}
	if eo.Sink.ErrCount > 0 && eo.Err == nil {
		mode := "permanent"
		if sc.WFault != nil && sc.WFault.Transient {
			mode = "transient"
		}
		return &Violation{Class: "nil-error", Signature: "nil-error|encode|" + kind + "|" + mode,
			Detail: fmt.Sprintf("a Write returned %q (call %d, %s) but EncodeBebop of %s returned nil", simnet.ErrorByName(sc.WFault.Err), len(eo.Sink.Calls), mode, sc.Type),
			Facts:  map[string]string{"op": "encode", "record_kind": kind, "mode": mode}}
	}
	if eo.Err == nil {
		m := n.encode(rec, "marshal", sc.Order, nil, nil, "")
		if !m.Call.Panicked && !bytes.Equal(m.Bytes, eo.Bytes) {
			return mismatch("encode-nil-but-different|"+kind, fmt.Sprintf("EncodeBebop returned nil but wrote %d bytes that differ from MarshalBebop (%d bytes) at %d", len(eo.Bytes), len(m.Bytes), firstDiff(m.Bytes, eo.Bytes)), nil)
		}
	}
	return nil
}

func execRFault(n *Node, sc *Scenario) *Violation {
	sb := n.Build(sc.Prog, sc.Mask, false)
	rb := n.receiver(sc)
	if sb == nil || rb == nil {
		note(sc, "skipped", "build absent")
		return nil
	}
	data, spans := validEncoding(sb, sc)
	if sc.Input != nil {
		// a stream that is not a valid encoding (C08 speaks of failing readers, not of
		// what they carried before they failed)
		data, spans = sc.Input, nil
	}
	if len(data) == 0 {
		return nil
	}
	rf := *sc.RFault
	if rf.At >= len(data) {
		rf.At = len(data) - 1
	}
	ek := elemKindAt(spans, rf.At)
	kind := recordKind(rb.Schema, sc.Type)
	do := n.decode(rb, sc.Type, sc.Decoder, data, sc.Sched, &rf, sc.Reader, len(data))
	if do.NoSuch {
		note(sc, "skipped", "decoder not generated")
		return nil
	}
	note(sc, "fired", "0")
	if do.Link != nil && do.Link.FaultFired {
		note(sc, "fired", "1")
	}
	if v := callViolation(&do.Call, sc, rb.Schema, sc.Decoder); v != nil {
		v.Elem = ek
		v.Facts["elem"] = ek
		v.Facts["fired"] = sc.Extra["fired"]
		return v
	}
	// a clean io.EOF before the last byte of the record is a failure of the reader like any
	// other: the stream ended inside the record
	eofInside := do.Link != nil && do.Link.FaultFired && rf.Err == "eof" && do.Link.EOFReturned
	demand := true
	if sc.Input != nil {
		// what a decoder needs of a stream that is no valid encoding is only known when the
		// reference decoder accepts it: then the failure lies inside the record if it comes
		// before the last byte the reference consumed. Otherwise only the "no panic, hang or
		// memory exhaustion" half of the property is judged.
		_, m, derr := refcodec.Decode(rb.Schema, schema.Type{Named: sc.Type}, data)
		demand = derr == nil && rf.At < m
	}
	if demand && do.Link != nil && (do.Link.ErrReturned || eofInside) && do.Err == nil {
		mode := "permanent"
		if rf.Transient {
			mode = "transient"
		}
		return &Violation{Class: "nil-error", Signature: "nil-error|" + sc.Decoder + "|" + kind + "|" + mode + "|" + ek, Elem: ek,
			Detail: fmt.Sprintf("the reader returned %q at byte %d of %d (%s, on %s) but %s of %s returned nil", simnet.ErrorByName(rf.Err), rf.At, len(data), mode, ek, sc.Decoder, sc.Type),
			Facts:  map[string]string{"op": sc.Decoder, "record_kind": kind, "mode": mode, "elem": ek, "old_reader": fmt.Sprint(sc.OldPeer)}}
	}
	return nil
}

var _ = io.EOF
