package harness

import (
	"bytes"
	"encoding/json"
	"fmt"
	"hash/fnv"
	"io"
	"os"
	"os/exec"
	"path/filepath"
	"reflect"
	"regexp"
	"runtime"
	"sort"
	"strings"
	"sync"
	"unsafe"

	"github.com/200sc/bebop"
	"github.com/200sc/bebop/iohelp"

	"verif/pkg/prng"
	"verif/pkg/proto"
	"verif/pkg/schema"
	"verif/pkg/simnet"
	"verif/simrt"
)

// C14: ReadFile, Validate, Generate and Format are pure and repeatable, also when many
// callers share one File. Tasks run as real goroutines but only the baton holder
// executes; simrt.Yield (inserted before every statement of the library) is the only
// place where the baton can change hands, and the schedule decides whether it does.

func init() {
	props["C14"] = runC14
	execs["concurrent"] = execConcurrent
}

// ---------------------------------------------------------------------------------
// deep fingerprints

type fper struct {
	seen map[uintptr]bool
	n    int64 // values visited
}

// globWork counts the values visited by fingerprints of package variables in the current
// scenario; beyond globBudget no further fingerprints are taken (a change that hangs a large
// table off a package variable makes each one expensive, and there is one per hand-over).
// What was recorded until then still counts. A function of the scenario, not of the clock.
var globWork int64

const globBudget = 60_000_000

func hashBytes(h uint64, b []byte) uint64 {
	for _, c := range b {
		h ^= uint64(c)
		h *= 0x100000001b3
	}
	return h
}

func hashU(h, v uint64) uint64 {
	var b [8]byte
	for i := range b {
		b[i] = byte(v >> (8 * uint(i)))
	}
	return hashBytes(h, b[:])
}

// hashValue folds the visible content of v into h. Slices contribute only [0,len).
func (f *fper) hashValue(h uint64, v reflect.Value, depth int) uint64 {
	f.n++
	if depth > 40 {
		return h
	}
	switch v.Kind() {
	case reflect.Bool:
		if v.Bool() {
			return hashU(h, 1)
		}
		return hashU(h, 2)
	case reflect.Int, reflect.Int8, reflect.Int16, reflect.Int32, reflect.Int64:
		return hashU(h, uint64(v.Int()))
	case reflect.Uint, reflect.Uint8, reflect.Uint16, reflect.Uint32, reflect.Uint64, reflect.Uintptr:
		return hashU(h, v.Uint())
	case reflect.Float32, reflect.Float64:
		return hashU(h, uint64(v.Float()*1e6))
	case reflect.String:
		return hashBytes(hashU(h, uint64(v.Len())), []byte(v.String()))
	case reflect.Slice:
		h = hashU(h, uint64(v.Len())+0x51)
		for i := 0; i < v.Len(); i++ {
			h = f.hashValue(h, v.Index(i), depth+1)
		}
		return h
	case reflect.Array:
		for i := 0; i < v.Len(); i++ {
			h = f.hashValue(h, v.Index(i), depth+1)
		}
		return h
	case reflect.Map:
		if v.IsNil() {
			return hashU(h, 0x6d)
		}
		// order independent: sum of entry hashes
		var sum uint64
		it := v.MapRange()
		for it.Next() {
			e := f.hashValue(0xcbf29ce484222325, it.Key(), depth+1)
			e = f.hashValue(e, it.Value(), depth+1)
			sum += e
		}
		return hashU(hashU(h, uint64(v.Len())), sum)
	case reflect.Ptr:
		if v.IsNil() {
			return hashU(h, 0x70)
		}
		p := v.Pointer()
		if f.seen[p] {
			return hashU(h, 0x71)
		}
		f.seen[p] = true
		return f.hashValue(hashU(h, 0x72), v.Elem(), depth+1)
	case reflect.Interface:
		if v.IsNil() {
			return hashU(h, 0x69)
		}
		return f.hashValue(hashBytes(h, []byte(v.Elem().Type().String())), v.Elem(), depth+1)
	case reflect.Struct:
		if pp := v.Type().PkgPath(); pp == "sync" || pp == "sync/atomic" {
			// synchronisation objects are not data: their words change under the runtime's
			// own rules (a Pool is emptied by the garbage collector); the simulator models
			// them in simrt instead
			return hashU(h, 0x73)
		}
		for i := 0; i < v.NumField(); i++ {
			h = f.hashValue(h, v.Field(i), depth+1)
		}
		return h
	case reflect.Func, reflect.Chan, reflect.UnsafePointer:
		return hashU(h, 0x66)
	}
	return h
}

func visibleHash(v interface{}) uint64 {
	f := &fper{seen: map[uintptr]bool{}}
	return f.hashValue(0xcbf29ce484222325, reflect.ValueOf(v), 0)
}

// spareSlots fingerprints every slot of spare capacity reachable from v: path -> hash.
func spareSlots(v reflect.Value, path string, out map[string]uint64, depth int) {
	if depth > 12 {
		return
	}
	switch v.Kind() {
	case reflect.Slice:
		if v.IsNil() {
			return
		}
		full := v
		if v.Cap() > v.Len() && v.CanInterface() {
			full = v.Slice3(0, v.Cap(), v.Cap())
			for i := v.Len(); i < v.Cap(); i++ {
				f := &fper{seen: map[uintptr]bool{}}
				out[fmt.Sprintf("%s[%d]", path, i)] = f.hashValue(0xcbf29ce484222325, full.Index(i), 0)
			}
		}
		for i := 0; i < v.Len(); i++ {
			spareSlots(v.Index(i), fmt.Sprintf("%s[%d]", path, i), out, depth+1)
		}
	case reflect.Struct:
		for i := 0; i < v.NumField(); i++ {
			if v.Type().Field(i).PkgPath != "" {
				continue
			}
			spareSlots(v.Field(i), path+"."+v.Type().Field(i).Name, out, depth+1)
		}
	case reflect.Ptr:
		if !v.IsNil() {
			spareSlots(v.Elem(), path+"*", out, depth+1)
		}
	case reflect.Map:
		it := v.MapRange()
		for it.Next() {
			spareSlots(it.Value(), fmt.Sprintf("%s{%v}", path, it.Key()), out, depth+1)
		}
	}
}

// globalsSnapshot fingerprints every package-level variable of the library: its visible
// content under its name, and every slot of spare slice capacity reachable from it under
// "name+spare..." (a table of shared byte slices that callers append to is written beyond
// the lengths everybody sees).
func globalsSnapshot() map[string]uint64 {
	if globWork > globBudget {
		return nil
	}
	out := map[string]uint64{}
	for name, p := range libraryGlobals() {
		v := reflect.ValueOf(p)
		if v.Kind() == reflect.Ptr && !v.IsNil() {
			f := &fper{seen: map[uintptr]bool{}}
			out[name] = f.hashValue(0xcbf29ce484222325, v.Elem(), 0)
			globWork += f.n
			func() {
				defer func() { recover() }()
				spareSlotsAll(v.Elem(), name+"+spare", out, 0)
			}()
		}
	}
	return out
}

// spareSlotsAll is spareSlots without the restriction to exported fields (package
// variables are mostly unexported tables).
func spareSlotsAll(v reflect.Value, path string, out map[string]uint64, depth int) {
	if depth > 8 {
		return
	}
	switch v.Kind() {
	case reflect.Slice:
		if v.IsNil() {
			return
		}
		if v.Cap() > v.Len() {
			full := v.Slice3(0, v.Cap(), v.Cap())
			f := &fper{seen: map[uintptr]bool{}}
			h := uint64(0xcbf29ce484222325)
			for i := v.Len(); i < v.Cap(); i++ {
				h = f.hashValue(h, full.Index(i), 0)
			}
			out[path] = h
		}
		if k := v.Type().Elem().Kind(); k == reflect.Slice || k == reflect.Struct || k == reflect.Ptr || k == reflect.Map || k == reflect.Interface {
			for i := 0; i < v.Len() && i < 4096; i++ {
				spareSlotsAll(v.Index(i), fmt.Sprintf("%s[%d]", path, i), out, depth+1)
			}
		}
	case reflect.Array:
		if k := v.Type().Elem().Kind(); k == reflect.Slice || k == reflect.Struct || k == reflect.Ptr || k == reflect.Map {
			for i := 0; i < v.Len() && i < 4096; i++ {
				spareSlotsAll(v.Index(i), fmt.Sprintf("%s[%d]", path, i), out, depth+1)
			}
		}
	case reflect.Struct:
		if pp := v.Type().PkgPath(); pp == "sync" || pp == "sync/atomic" {
			return
		}
		for i := 0; i < v.NumField(); i++ {
			spareSlotsAll(v.Field(i), path+"."+v.Type().Field(i).Name, out, depth+1)
		}
	case reflect.Ptr, reflect.Interface:
		if !v.IsNil() {
			spareSlotsAll(v.Elem(), path+"*", out, depth+1)
		}
	case reflect.Map:
		it := v.MapRange()
		for it.Next() {
			f := &fper{seen: map[uintptr]bool{}}
			spareSlotsAll(it.Value(), fmt.Sprintf("%s{%x}", path, f.hashValue(1, it.Key(), 0)), out, depth+1)
		}
	}
}

// libraryGlobals lists the address of every package-level variable of the library; the
// accessors are emitted by the instrumenter from whatever the tree declares today.
func libraryGlobals() map[string]interface{} {
	out := map[string]interface{}{}
	for k, v := range bebop.VerifGlobals() {
		out["bebop."+k] = v
	}
	for k, v := range iohelp.VerifGlobals() {
		out["iohelp."+k] = v
	}
	return out
}

// ---------------------------------------------------------------------------------
// tasks

type TaskSpec = proto.TaskSpec

type taskResult struct {
	Out      []byte
	Err      error
	Panic    string
	Frames   string
	FileHash uint64
}

func settingsFor(ts TaskSpec) bebop.GenerateSettings {
	mode := bebop.ImportGenerationModeSeparate
	if ts.Combined {
		mode = bebop.ImportGenerationModeCombined
	}
	return bebop.GenerateSettings{PackageName: "simpkg", ImportGenerationMode: mode,
		GenerateUnsafeMethods: ts.Mask&1 != 0, SharedMemoryStrings: ts.Mask&2 != 0, GenerateFieldTags: ts.Mask&4 != 0,
		PrivateDefinitions: ts.Mask&8 != 0, AlwaysUsePointerReceivers: ts.Mask&16 != 0}
}

func runTask(ts TaskSpec, shared *bebop.File, text []byte) (res taskResult) {
	defer func() {
		if p := recover(); p != nil {
			res.Panic = fmt.Sprint(p)
		}
	}()
	switch ts.Op {
	case "generate":
		var buf bytes.Buffer
		res.Err = shared.Generate(&buf, settingsFor(ts))
		res.Out = buf.Bytes()
	case "validate":
		res.Err = shared.Validate()
	case "format":
		var buf bytes.Buffer
		res.Err = bebop.Format(bytes.NewReader(text), &buf)
		res.Out = buf.Bytes()
	case "readfile":
		f, warns, err := bebop.ReadFile(bytes.NewReader(text))
		res.Err = err
		res.FileHash = visibleHash(f)
		res.Out = []byte(strings.Join(warns, "\n"))
	}
	return res
}

// ---------------------------------------------------------------------------------
// baton scheduler

type Switch = proto.Switch

type batonTask struct {
	id     int
	resume chan struct{}
	done   bool
	ts     *simrt.TaskState
	res    taskResult
}

type baton struct {
	tasks    []*batonTask
	cur      *batonTask
	back     chan int // task id that yielded the baton (or finished)
	step     int
	plan     []Switch // explicit switch list (replay) or nil
	planPos  int
	rng      *prng.Rand
	switchP  int // 1/switchP chance to switch at a yield (random strategy)
	prio     []int
	changeAt map[int]bool // PCT priority change points
	trace    []Switch
	onSwitch func(from int)
	maxSteps int
	// "sync" strategy: after a synchronisation operation (unlock, pool put/get, once,
	// atomic) the baton is handed on a few yields later with probability 1/2: the windows
	// that matter open right behind such operations.
	syncBias      bool
	syncCountdown int
	syncOps       int // synchronisation operations seen
	syncSwitches  int // hand-overs made because of one
	// "pair" strategy (adversarial pairs): when a task releases a synchronisation object,
	// it is descheduled a few yields later, somebody else runs undisturbed until it touches
	// the SAME object, and a little after that the first task is resumed. The window between
	// "gave it back" and "finished using what it gave back" is then crossed by another
	// caller whenever the code has such a window.
	pairBias      bool
	pairPhase     int // 0 idle, 1 about to leave the releaser, 2 others run, 3 about to return
	pairFrom      int
	pairAddr      uintptr
	pairCountdown int
	pairSince     int
	pairStats     [4]int // armed, left the releaser, partner touched the object, returned
}

func (b *baton) runnable() []int {
	var out []int
	for _, t := range b.tasks {
		if !t.done {
			out = append(out, t.id)
		}
	}
	return out
}

// choose decides who runs after the current task reached a yield point (or finished).
func (b *baton) choose(curDone bool) int {
	run := b.runnable()
	if len(run) == 0 {
		return -1
	}
	cur := -1
	if b.cur != nil && !curDone {
		cur = b.cur.id
	}
	if b.plan != nil {
		if b.planPos < len(b.plan) && b.plan[b.planPos].Step <= b.step {
			want := b.plan[b.planPos].Task
			b.planPos++
			for _, r := range run {
				if r == want {
					return want
				}
			}
		}
		if cur >= 0 {
			return cur
		}
		return run[0]
	}
	if b.prio != nil { // PCT
		if b.changeAt[b.step] && cur >= 0 {
			b.prio[cur] = -b.step // drop below everyone
		}
		best := run[0]
		for _, r := range run {
			if b.prio[r] > b.prio[best] {
				best = r
			}
		}
		return best
	}
	if b.pairBias && b.pairPhase != 0 {
		alive := false
		for _, r := range run {
			if r == b.pairFrom {
				alive = true
			}
		}
		switch {
		case !alive || len(run) < 2 || b.step-b.pairSince > 400_000:
			b.pairPhase = 0 // nothing to pair with any more
		case b.pairPhase == 1 && cur == b.pairFrom:
			if b.pairCountdown--; b.pairCountdown <= 0 {
				b.pairPhase, b.pairSince = 2, b.step
				b.syncSwitches++
				b.pairStats[1]++
				for {
					if r := run[b.rng.Intn(len(run))]; r != cur {
						return r
					}
				}
			}
			return cur
		case b.pairPhase == 2:
			if cur >= 0 && cur != b.pairFrom {
				return cur // undisturbed
			}
			for _, r := range run {
				if r != b.pairFrom {
					return r
				}
			}
		case b.pairPhase == 3:
			if b.pairCountdown--; b.pairCountdown <= 0 {
				b.pairPhase = 0
				b.pairStats[3]++
				return b.pairFrom
			}
			if cur >= 0 {
				return cur
			}
		}
	}
	if b.syncCountdown > 0 && cur >= 0 {
		b.syncCountdown--
		if b.syncCountdown == 0 && len(run) > 1 {
			b.syncSwitches++
			for {
				if r := run[b.rng.Intn(len(run))]; r != cur {
					return r
				}
			}
		}
	}
	if cur >= 0 && !b.rng.Chance(1, b.switchP) {
		return cur
	}
	return run[b.rng.Intn(len(run))]
}

// yield is simrt's callback: runs on the current task's goroutine.
func (b *baton) yield(site int) {
	b.step++
	t := b.cur
	if b.maxSteps > 0 && b.step > b.maxSteps {
		panic(&simrt.Sentinel{Kind: "steps", Value: int64(b.step), Limit: int64(b.maxSteps)})
	}
	next := b.choose(false)
	if site == -1 {
		// the task is blocked on a cooperative lock / once: somebody else must run. Pick
		// the next runnable task in cyclic order (deterministic, independent of strategy).
		run := b.runnable()
		next = -1
		for i := 1; i <= len(b.tasks); i++ {
			cand := (t.id + i) % len(b.tasks)
			for _, r := range run {
				if r == cand && cand != t.id {
					next = cand
				}
			}
			if next >= 0 {
				break
			}
		}
		if next < 0 {
			panic("deadlock: every task is blocked on a lock held by a finished or blocked task")
		}
	}
	if next == t.id || next < 0 {
		return
	}
	if b.onSwitch != nil {
		b.onSwitch(t.id)
	}
	b.trace = append(b.trace, Switch{b.step, next})
	nt := b.tasks[next]
	b.cur = nt
	simrt.SetCurrentTask(nt.ts)
	nt.resume <- struct{}{}
	<-t.resume
}

// run executes fns concurrently under the schedule and returns when all have finished.
func (b *baton) run(fns []func() taskResult) {
	finished := make(chan int)
	for i, fn := range fns {
		t := b.tasks[i]
		fn := fn
		go func() {
			<-t.resume
			t.res = fn()
			t.done = true
			// hand the baton on
			if b.onSwitch != nil {
				b.onSwitch(t.id)
			}
			next := b.choose(true)
			if next < 0 {
				finished <- t.id
				return
			}
			b.trace = append(b.trace, Switch{b.step, next})
			nt := b.tasks[next]
			b.cur = nt
			simrt.SetCurrentTask(nt.ts)
			nt.resume <- struct{}{}
		}()
	}
	first := b.choose(true)
	b.cur = b.tasks[first]
	b.trace = append(b.trace, Switch{0, first})
	simrt.AttachScheduler(b.yield)
	simrt.SetCurrentTask(b.cur.ts) // after attaching: AttachScheduler clears the current task
	b.cur.resume <- struct{}{}
	<-finished
	simrt.DetachScheduler()
}

// ---------------------------------------------------------------------------------
// scenario

type c14Workspace struct {
	dir string
}

var c14ws *c14Workspace

func workspace() *c14Workspace {
	if c14ws == nil {
		d, err := os.MkdirTemp("", "verif-c14-")
		if err != nil {
			panic(err)
		}
		c14ws = &c14Workspace{dir: d}
	}
	return c14ws
}

const impText = `const string go_package = "example.com/sim/impx";
enum ImpColor { Red = 1; Green = 2; }
struct ImpPoint { int32 x; int32 y; ImpColor c; }
message ImpNote { 1 -> string text; 2 -> ImpPoint at; }
union ImpU { 1 -> struct ImpA { bool b; } 2 -> message ImpB { 1 -> ImpPoint p; } }
`

const impTextY = `const string go_package = "example.com/sim/impy";
enum ImpySize { Small = 1; Large = 2; }
struct ImpyBox { ImpySize sz; float64 w; }
message ImpyTag { 1 -> string k; 2 -> ImpyBox box; }
`

// c14ImpVer selects the revision of the imported files that prepareFile writes: the files
// an import names are part of what Generate is given, and they change between calls (an
// edit, a checkout) while the process lives on. Set per scenario, passed to fresh processes.
var c14ImpVer int

func impTexts(ver int) (string, string) {
	x, y := impText, impTextY
	switch ver {
	case 1:
		// (what the importing file's own output shows of an imported file: its package, the
		// kinds and base types of its definitions)
		x = strings.Replace(x, "example.com/sim/impx", "example.com/sim/v2/impx", 1)
		x = strings.Replace(x, "enum ImpColor {", "enum ImpColor : uint8 {", 1)
		x = strings.Replace(x, "int32 y; ImpColor c; }", "int32 y; ImpColor c; int32 z; }", 1)
		x = strings.Replace(x, "Green = 2; }", "Green = 2; Blue = 3; }", 1)
		x = strings.Replace(x, "2 -> ImpPoint at; }", "2 -> ImpPoint at; 3 -> uint8 prio; }", 1)
	case 2:
		y = strings.Replace(y, "example.com/sim/impy", "example.com/sim/impy2", 1)
		y = strings.Replace(y, "enum ImpySize {", "enum ImpySize : int64 {", 1)
		y = strings.Replace(y, "float64 w; }", "float64 w; string label; }", 1)
		x = strings.Replace(x, "1 -> ImpPoint p; } }", "1 -> ImpPoint p; } 3 -> struct ImpC { int64 n; } }", 1)
	}
	return x, y
}

// importUses are further definitions of the importing file that refer to imported types
// from inside containers.
var importUses = []string{
	"struct UsesImpN { ImpPoint[] ps; array[ImpyBox] bs; map[string, ImpPoint] byName; uint32 tail; }\nmessage UsesImpNM { 1 -> map[uint8, ImpNote[]] notes; 2 -> ImpyTag[] tags; }\n",
	"union UsesImpU { 1 -> struct UsesImpUA { ImpPoint[] p; } 2 -> message UsesImpUB { 1 -> map[string, ImpyTag] t; 2 -> ImpU[] us; } }\nstruct HoldsImpU { UsesImpU u; ImpColor[] cs; }\n",
	"struct UsesImpDeep { ImpPoint[][] grid; map[string, map[uint16, ImpyBox[]]] deep; array[array[ImpNote]] nn; byte z; }\n",
	"message UsesImpOnlyNested { 1 -> array[ImpU] us; 2 -> map[guid, ImpySize] sizes; 3 -> map[int32, ImpNote] byId; }\n",
}

// prepareFile parses the main text (with an optional import) into the shared File and
// optionally gives every top-level slice spare capacity filled with sentinel entries.
func prepareFile(text string, withImport bool, spare int) (*bebop.File, []byte, error) {
	ws := workspace()
	ix, iy := impTexts(c14ImpVer)
	os.WriteFile(filepath.Join(ws.dir, "impx.bop"), []byte(ix), 0o644)
	os.WriteFile(filepath.Join(ws.dir, "impy.bop"), []byte(iy), 0o644)
	os.WriteFile(filepath.Join(ws.dir, "cyca.bop"), []byte("import \"cycb.bop\"\nimport \"cycc.bop\"\nimport \"cycd.bop\"\nconst string go_package = \"example.com/sim/cyca\";\nstruct CycA { int32 a; }\n"), 0o644)
	os.WriteFile(filepath.Join(ws.dir, "cycb.bop"), []byte("import \"cyca.bop\"\nconst string go_package = \"example.com/sim/cycb\";\nstruct CycB { int32 b; }\n"), 0o644)
	os.WriteFile(filepath.Join(ws.dir, "cycc.bop"), []byte("import \"cyca.bop\"\nconst string go_package = \"example.com/sim/cycc\";\nstruct CycC { int32 c; }\n"), 0o644)
	os.WriteFile(filepath.Join(ws.dir, "cycd.bop"), []byte("import \"cycb.bop\"\nconst string go_package = \"example.com/sim/cycd\";\nstruct CycD { int32 d; }\n"), 0o644)
	main := text
	if withImport {
		// two imported files with different go_package values, both used by this file
		// (the users of the imports come first: a text may end in a [flags] enum, after which
		// the parser accepts nothing but enums)
		main = "import \"impx.bop\"\nimport \"impy.bop\"\nstruct UsesImp { ImpPoint p; ImpColor c; ImpyBox b; ImpySize s; }\nmessage UsesImpMsg { 1 -> ImpyTag t; 2 -> ImpNote n; }\n" + text + "\n"
	}
	f, _, err := bebop.ReadFile(bytes.NewReader([]byte(main)))
	if err != nil {
		return nil, []byte(main), err
	}
	f.FileName = filepath.Join(ws.dir, "main.bop")
	if spare%2 == 1 {
		// a nil Fields map is as good an input as an empty one
		for i := range f.Messages {
			if len(f.Messages[i].Fields) == 0 {
				f.Messages[i].Fields = nil
			}
		}
		for i := range f.Unions {
			if len(f.Unions[i].Fields) == 0 {
				f.Unions[i].Fields = nil
			}
		}
	}
	if spare > 0 {
		st := make([]bebop.Struct, len(f.Structs), len(f.Structs)+spare)
		copy(st, f.Structs)
		f.Structs = st
		ms := make([]bebop.Message, len(f.Messages), len(f.Messages)+spare)
		copy(ms, f.Messages)
		f.Messages = ms
		en := make([]bebop.Enum, len(f.Enums), len(f.Enums)+spare)
		copy(en, f.Enums)
		f.Enums = en
		un := make([]bebop.Union, len(f.Unions), len(f.Unions)+spare)
		copy(un, f.Unions)
		f.Unions = un
		cs := make([]bebop.Const, len(f.Consts), len(f.Consts)+spare)
		copy(cs, f.Consts)
		f.Consts = cs
	}
	return &f, []byte(main), nil
}

func runC14(c *Ctx) *Replay {
	r := c.R
	ps := c.N.Batch.Programs
	if len(ps) == 0 {
		return nil
	}
	p := ps[r.Intn(len(ps))]
	sc := Scenario{Kind: "concurrent", Prog: p.ID, Extra: map[string]string{}}
	sc.Extra["layout"] = fmt.Sprint(r.Intn(4))
	if r.Chance(1, 6) {
		sc.Extra["semerr"] = fmt.Sprint(1 + r.Intn(len(semanticErrors)))
	}
	withImport := r.Chance(2, 3)
	spare := 0
	if r.Chance(3, 4) {
		spare = r.Range(1, 8)
	}
	sc.Extra["import"] = fmt.Sprint(withImport)
	sc.Extra["spare"] = fmt.Sprint(spare)
	if withImport && r.Chance(1, 2) {
		// the imported files exist in three revisions; which one is on disk changes from
		// scenario to scenario while the process and the path stay the same
		sc.Extra["impver"] = fmt.Sprint(1 + r.Intn(2))
	}
	if withImport && r.Chance(1, 2) {
		sc.Extra["impform"] = fmt.Sprint(1 + r.Intn(len(importUses)))
	}
	if r.Chance(1, 3) {
		sc.Extra["attrs"] = "1"
	}
	if r.Chance(1, 5) {
		sc.Extra["awkward"] = fmt.Sprint(1 + r.Intn(len(awkwardNames)))
	}
	nt := r.Range(2, 4)
	var tasks []TaskSpec
	for i := 0; i < nt; i++ {
		ts := TaskSpec{Op: []string{"generate", "generate", "generate", "validate", "format", "format", "readfile"}[r.Intn(7)], Mask: r.Intn(32), Combined: r.Bool(), MapOrder: drawOrder(r)}
		if r.Bool() {
			ts.Repeat = r.Range(1, 2)
		}
		tasks = append(tasks, ts)
	}
	strategy := []string{"random", "pct", "random", "sync", "pair"}[r.Intn(5)]
	sc.Extra["strategy"] = strategy
	sc.Extra["seed"] = fmt.Sprint(r.Uint64())
	sc.Extra["switch_p"] = fmt.Sprint([]int{2, 8, 64, 512}[r.Intn(4)])
	if strategy == "sync" || strategy == "pair" {
		sc.Extra["switch_p"] = fmt.Sprint([]int{64, 512, 4096}[r.Intn(3)])
	}
	sc.Extra["pct_d"] = fmt.Sprint(r.Range(1, 3))
	sc.Tasks = tasks
	c.Log("C14", p.ID, withImport, spare, strategy)
	viol := execConcurrent(c.N, &sc)
	c.Count("evaluations", 1)
	c.Count("strategy:"+strategy, 1)
	c.Count("tasks", int64(nt))
	if sc.Extra["skipped"] != "" {
		c.Count("skipped:"+sc.Extra["skipped"], 1)
		return nil
	}
	var ops []string
	for _, t := range tasks {
		ops = append(ops, t.Op)
	}
	sort.Strings(ops)
	c.State("c14", strings.Join(ops, ","), strategy, sc.Extra["import"], fmt.Sprint(spare > 0), sc.Extra["trace_hash"])
	if globWork > globBudget {
		c.Count("global_fingerprint_budget_used_up", 1)
	}
	c.Count("switches", int64(len(sc.Switches)))
	c.Count("yields", atoiDefault(sc.Extra["steps"], 0))
	c.Count("sync_ops", atoiDefault(sc.Extra["sync_ops"], 0))
	c.Count("sync_switches", atoiDefault(sc.Extra["sync_switches"], 0))
	{
		var a0, a1, a2, a3 int64
		fmt.Sscan(sc.Extra["pair_stats"], &a0, &a1, &a2, &a3)
		c.Count("pair_armed", a0)
		c.Count("pair_left", a1)
		c.Count("pair_touched", a2)
		c.Count("pair_returned", a3)
	}
	if c.Run%50 == 0 {
		c.Sample(map[string]interface{}{"program": p.ID, "tasks": tasks, "import": withImport, "spare_capacity": spare, "strategy": strategy, "switches": len(sc.Switches), "yields": sc.Extra["steps"]})
	}
	c.Log(sc.Extra["trace_hash"], viol == nil)
	if viol != nil {
		return c.shrinkConcurrent(&sc, viol)
	}
	// reader-chunking independence on the same text and on a torn copy of it
	for i := 0; i < 6; i++ {
		text := []byte(p.Bop)
		if i >= 2 {
			// other layouts: block remarks, CRLF, trailing remarks
			text = []byte(p.Schema.PrintLayout(schema.Layout{Indent: "\t", Comments: true, Block: i%2 == 0, CRLF: i == 3, Trailing: i % 3}))
		}
		if i%2 == 1 && len(text) > 0 {
			text = text[:r.Intn(len(text))]
		}
		sched := drawSchedule(r, len(text), nil)
		if i >= 4 {
			// the first Read ends INSIDE a two-character token (remark delimiters, arrows,
			// shifts, CRLF), the rest follows in one piece
			var cand []int
			for k := 1; k < len(text); k++ {
				switch string(text[k-1 : k+1]) {
				case "*/", "/*", "//", "->", "<<", ">>", "\r\n":
					cand = append(cand, k)
				}
			}
			if len(cand) > 0 {
				sched = &simnet.Schedule{Name: "split-token", Chunks: []int{cand[r.Intn(len(cand))]}}
			}
		}
		ci := Scenario{Kind: "chunkindep", Prog: p.ID, Input: text, Sched: sched}
		v := execChunkIndep(c.N, &ci)
		c.Count("evaluations", 1)
		c.Count("chunkindep:"+ci.Sched.Name, 1)
		if v != nil {
			return c.shrinkInputGeneric(&ci, v, execChunkIndep)
		}
	}
	return nil
}

// shrinkInputGeneric reports a violation of an input-bytes scenario without minimising
// beyond the schedule (inputs here are schema texts a reader can inspect).
func (c *Ctx) shrinkInputGeneric(sc *Scenario, v *Violation, ex execFn) *Replay {
	rp, fresh := c.gate(sc, v, nil)
	if !fresh {
		return rp
	}
	for _, alt := range []*simnet.Schedule{{Name: "1-byte", Repeat: 1}, {Name: "fixed", Repeat: 3}} {
		cand := cloneScenario(&rp.Scenario)
		cand.Sched = alt
		if nv := ex(c.N, &cand); nv != nil && nv.Signature == v.Signature {
			rp.Scenario = cand
			rp.Violation = *nv
			rp.Violation.Property = rp.Property
			break
		}
	}
	return rp
}

func atoiDefault(s string, d int64) int64 {
	var v int64
	if _, err := fmt.Sscan(s, &v); err != nil {
		return d
	}
	return v
}

func (c *Ctx) shrinkConcurrent(sc *Scenario, v *Violation) *Replay {
	rp, fresh := c.gate(sc, v, nil)
	if !fresh {
		return rp
	}
	budget := 120
	if globWork > globBudget/8 {
		// fingerprints of the package variables are expensive under this violation (a large
		// table hangs off one of them): a few attempts only
		budget = 4
	}
	try := func(cand Scenario) bool {
		if budget <= 0 {
			return false
		}
		budget--
		cand.Extra["strategy"] = "plan"
		var nv *Violation
		func() {
			// a process whose shared state the violation has already corrupted may run away
			// or panic while the scenario is executed again: the report then stays as it is
			defer func() {
				if r := recover(); r != nil {
					budget = 0
					simrt.DetachScheduler()
				}
			}()
			nv = execConcurrent(c.N, &cand)
		}()
		if nv != nil && nv.Signature == v.Signature {
			rp.Scenario = cand
			rp.Violation = *nv
			rp.Violation.Property = rp.Property
			rp.Shrunk++
			return true
		}
		return false
	}
	// replay from the recorded switch list, then drop switches (ddmin style)
	base := cloneScenario(&rp.Scenario)
	if !try(base) {
		return rp // keep the generative form if the plan form does not reproduce
	}
	for chunk := len(rp.Scenario.Switches) / 2; chunk >= 1; chunk /= 2 {
		for i := 1; i+chunk <= len(rp.Scenario.Switches) && budget > 0; {
			cand := cloneScenario(&rp.Scenario)
			cand.Switches = append(append([]proto.Switch(nil), cand.Switches[:i]...), cand.Switches[i+chunk:]...)
			if !try(cand) {
				i += chunk
			}
		}
	}
	return rp
}

func execConcurrent(n *Node, sc *Scenario) *Violation {
	if sc.Extra == nil {
		sc.Extra = map[string]string{}
	}
	simrt.SetIdleLimit(400_000_000)
	globWork = 0
	delete(sc.Extra, "skipped")
	var prog *BatchProg
	for i := range n.Batch.Programs {
		if n.Batch.Programs[i].ID == sc.Prog {
			prog = &n.Batch.Programs[i]
		}
	}
	if prog == nil {
		sc.Extra["skipped"] = "no-program"
		return nil
	}
	withImport := sc.Extra["import"] == "true"
	spare := int(atoiDefault(sc.Extra["spare"], 0))
	c14ImpVer = int(atoiDefault(sc.Extra["impver"], 0))
	if lay := atoiDefault(sc.Extra["layout"], 0); lay > 0 {
		// the same schema in another layout (comments, CRLF, trailing remarks)
		cp := *prog
		cp.Bop = prog.Schema.PrintLayout(schema.Layout{Indent: "\t", Comments: true, Block: lay == 2, CRLF: lay == 3, Trailing: int(lay) % 3})
		prog = &cp
	}
	if k := atoiDefault(sc.Extra["semerr"], 0); k > 0 && int(k) <= len(semanticErrors) {
		// definitions that parse but cannot be compiled, with SEVERAL candidates for the error
		// that is reported: which one is named must not depend on map order or history
		cp := *prog
		if se := semanticErrors[k-1]; strings.HasPrefix(se, "import ") {
			cp.Bop = se + prog.Bop
		} else {
			cp.Bop = prog.Bop + "\n" + se
		}
		prog = &cp
	}
	if k := atoiDefault(sc.Extra["impform"], 0); withImport && k > 0 && int(k) <= len(importUses) {
		// imported types in NESTED positions (array elements, map values, containers of
		// containers, union branches), one form also with a package used nowhere else
		cp := *prog
		cp.Bop = prog.Bop + "\n" + importUses[k-1]
		prog = &cp
	}
	if k := atoiDefault(sc.Extra["awkward"], 0); k > 0 && int(k) <= len(awkwardNames) {
		// legal schema names that mean something in the Go the generator writes (its own
		// method names, Go keywords and predeclared names, the identifiers of its templates)
		cp := *prog
		cp.Bop = prog.Bop + "\n" + awkwardNames[k-1]
		prog = &cp
	}
	if sc.Extra["attrs"] == "1" {
		// top-level attributes of BOTH kinds in one text: [opcode(...)] in front of records at
		// the start, a [flags] enum at the very end (the parser never leaves flags mode)
		cp := *prog
		// (and records with one- and two-letter names, two of each keyword: headers short
		// enough to be put together inside whatever small array a token brings along)
		cp.Bop = "[opcode(\"AwK1\")]\nstruct AwkAttrA { int32 a; }\n[opcode(0x41774b32)]\nmessage AwkAttrB { 1 -> int32 a; }\n" +
			"enum Zq { A = 1; }\nenum Zr { B = 2; }\nstruct Z { int32 a; }\nstruct Y { int32 b; }\nunion Zu { 1 -> struct Zv { int32 a; } }\nunion Zw { 1 -> struct Zx { int32 b; } }\nmessage X { 1 -> int32 a; }\nmessage W { 1 -> int32 b; }\n" + prog.Bop + "\n[flags]\nenum AwkAttrF { One = 1; Two = 2; Four = 4; }\n"
		prog = &cp
	}
	// prelude: the complementary call (every option flipped) of each task, so that the
	// scenario itself contains a history of calls with different settings; state that a
	// first call freezes then conflicts with the tasks in ANY process, also a replay's
	// ... and the imported files were in ANOTHER revision then (same paths, rewritten within
	// the same second): what a call saw on disk earlier must not show in a later call
	scenVer := c14ImpVer
	c14ImpVer = (scenVer + 1) % 3
	for _, ts := range sc.Tasks {
		comp := ts
		comp.Mask ^= 31
		comp.Combined = !comp.Combined
		if f, text, err := prepareFile(prog.Bop, withImport, spare); err == nil {
			simrt.SetMapOrder(simrt.OrderCanonical, 0)
			runTask(comp, f, text)
			simrt.SetMapOrder(simrt.OrderNative, 0)
		}
	}
	c14ImpVer = scenVer
	// the library starts goroutines of its own (the instrumenter counted go statements):
	// they would call into the baton from outside it. The callers then run FREE, as plain
	// goroutines on several processors, and only the outcome oracles judge.
	freeRun := n.Batch.Params["go_stmts"] > 0
	free := func(v *Violation) *Violation {
		if v != nil && freeRun {
			if v.Facts == nil {
				v.Facts = map[string]string{}
			}
			v.Facts["free_running"] = "true"
		}
		return v
	}
	// reference: each task alone, canonical map order, on its own fresh File
	refs := make([]taskResult, len(sc.Tasks))
	est := 0
	for i, ts := range sc.Tasks {
		f, text, err := prepareFile(prog.Bop, withImport, spare)
		if err != nil {
			sc.Extra["skipped"] = "parse-error"
			return nil
		}
		simrt.SetMapOrder(simrt.OrderCanonical, 0)
		if !freeRun {
			simrt.AttachScheduler(func(int) { est++ })
		}
		soloSpare := map[string]uint64{}
		spareSlots(reflect.ValueOf(*f), "File", soloSpare, 0)
		refs[i] = runTask(ts, f, text)
		simrt.DetachScheduler()
		simrt.SetMapOrder(simrt.OrderNative, 0)
		// the memory behind the File's slices beyond their lengths is the caller's too (another
		// File may share the backing array): a call that stores into it has written outside
		// its input, alone or not
		afterSpare := map[string]uint64{}
		spareSlots(reflect.ValueOf(*f), "File", afterSpare, 0)
		var touched []string
		for k, h := range soloSpare {
			if afterSpare[k] != h {
				touched = append(touched, k)
			}
		}
		if len(touched) > 0 {
			sort.Strings(touched)
			return free(&Violation{Class: "input-mutated", Signature: "input-mutated|spare-capacity|" + ts.Op,
				Detail: fmt.Sprintf("%s stored into the spare capacity of the slices of the File it was given (%d slots, e.g. %s): a File that shares the backing array sees its records overwritten", ts.Op, len(touched), touched[0]),
				Facts:  map[string]string{"op": ts.Op, "phase": "solo"}})
		}
		if refs[i].Panic != "" {
			return &Violation{Class: "panic", Signature: "panic|solo|" + ts.Op, Detail: clipStr(refs[i].Panic, 300)}
		}
	}
	// history independence: the same call made first thing in a fresh process gives the
	// same result as here, after everything this process has already done
	for i, ts := range sc.Tasks {
		fr, err := freshResult(prog.Bop, withImport, spare, ts)
		if err != nil || fr == nil {
			sc.Extra["skipped"] = "oneshot-failed"
			return nil
		}
		if fr.Panic != "" {
			continue // judged by the in-process phases
		}
		ref := &refs[i]
		same := fr.ErrNil == (ref.Err == nil) && (ref.Err != nil || (fr.OutLen == len(ref.Out) && fr.OutHash == hashOut(ref.Out))) && fr.FileHash == ref.FileHash
		if same && ref.Err != nil && normErrText(fr.ErrText) != normErrText(ref.Err.Error()) {
			same = false
		}
		if !same {
			return free(&Violation{Class: "nondeterministic-output", Signature: "nondeterministic|history|" + ts.Op,
				Detail: fmt.Sprintf("%s (mask %05b, combined=%v) returns a different result after earlier calls in the same process than as the first call of a fresh process (%d vs %d bytes, err %v vs nil=%v)", ts.Op, ts.Mask, ts.Combined, len(ref.Out), fr.OutLen, ref.Err, fr.ErrNil),
				Facts:  map[string]string{"op": ts.Op, "phase": "history"}})
		}
	}
	// repetition under other map orders: byte-identical output ("never produces a diff")
	for i, ts := range sc.Tasks {
		f, text, _ := prepareFile(prog.Bop, withImport, spare)
		simrt.SetMapOrder(ts.MapOrder.Strategy, ts.MapOrder.Seed)
		again := runTask(ts, f, text)
		simrt.SetMapOrder(simrt.OrderNative, 0)
		if v := compareResult("repeat", ts, &refs[i], &again); v != nil {
			v.Facts["map_order"] = fmt.Sprint(ts.MapOrder.Strategy)
			return free(v)
		}
		if freeRun {
			// several more repetitions on several processors: goroutines started by the call
			// interleave differently from one execution to the next
			prev := runtime.GOMAXPROCS(4)
			for k := 0; k < 6; k++ {
				f, text, _ := prepareFile(prog.Bop, withImport, spare)
				simrt.SetMapOrder(simrt.OrderCanonical, 0)
				again := runTask(ts, f, text)
				simrt.SetMapOrder(simrt.OrderNative, 0)
				if v := compareResult("repeat", ts, &refs[i], &again); v != nil {
					runtime.GOMAXPROCS(prev)
					return free(v)
				}
			}
			runtime.GOMAXPROCS(prev)
		}
	}
	// the concurrent phase on one shared File
	shared, text, _ := prepareFile(prog.Bop, withImport, spare)
	before := visibleHash(*shared)
	spareBefore := map[string]uint64{}
	spareSlots(reflect.ValueOf(*shared), "File", spareBefore, 0)
	globBefore := globalsSnapshot()
	if freeRun {
		prev := runtime.GOMAXPROCS(4)
		res := make([]taskResult, len(sc.Tasks))
		var wg sync.WaitGroup
		simrt.SetMapOrder(simrt.OrderCanonical, 0)
		for i := range sc.Tasks {
			wg.Add(1)
			go func(i int) {
				defer wg.Done()
				ts := sc.Tasks[i]
				for k := 0; k <= ts.Repeat; k++ {
					r := runTask(ts, shared, text)
					if k == 0 || compareResult("concurrent", ts, &refs[i], &r) != nil {
						res[i] = r
					}
				}
			}(i)
		}
		wg.Wait()
		simrt.SetMapOrder(simrt.OrderNative, 0)
		runtime.GOMAXPROCS(prev)
		sc.Extra["steps"], sc.Extra["trace_hash"] = "0", "free-running"
		for i := range res {
			if res[i].Panic != "" {
				return free(&Violation{Class: "panic", Signature: "panic|concurrent|" + sc.Tasks[i].Op, Detail: clipStr(res[i].Panic, 300), Facts: map[string]string{"op": sc.Tasks[i].Op}})
			}
		}
		if visibleHash(*shared) != before {
			return free(&Violation{Class: "input-mutated", Signature: "input-mutated|concurrent", Detail: "the File shared by the callers changed while they ran (free-running callers)",
				Facts: map[string]string{"import": sc.Extra["import"]}})
		}
		for i := range sc.Tasks {
			if v := compareResult("concurrent", sc.Tasks[i], &refs[i], &res[i]); v != nil {
				return free(v)
			}
		}
		return nil
	}
	b := &baton{back: make(chan int), maxSteps: 60*est + 200_000}
	seed := uint64(atoiDefault(sc.Extra["seed"], 1))
	b.rng = prng.New(seed)
	b.switchP = int(atoiDefault(sc.Extra["switch_p"], 8))
	if lim := est / 30000; b.switchP < lim {
		// very long calls: about 30000 hand-overs per scenario at most (each is a real park
		// and wake-up of a goroutine); a function of the scenario alone, so replays agree
		b.switchP = lim
	}
	for i, ts := range sc.Tasks {
		b.tasks = append(b.tasks, &batonTask{id: i, resume: make(chan struct{}), ts: simrt.NewTaskState(i, ts.MapOrder.Strategy, ts.MapOrder.Seed)})
	}
	switch sc.Extra["strategy"] {
	case "pair":
		b.pairBias = true
	case "sync":
		b.syncBias = true
	case "plan":
		b.plan = append([]Switch(nil), sc.Switches...)
		if len(b.plan) > 0 {
			b.planPos = 0
		}
	case "pct":
		b.prio = b.rng.Perm(len(sc.Tasks))
		for i := range b.prio {
			b.prio[i] += 10
		}
		b.changeAt = map[int]bool{}
		d := int(atoiDefault(sc.Extra["pct_d"], 2))
		if est < 10 {
			est = 10
		}
		for i := 0; i < d-1+2; i++ {
			b.changeAt[b.rng.Intn(est)+1] = true
		}
	}
	// race bookkeeping: who changed which spare slot / global, per quantum
	writers := map[string]map[int]bool{}
	spareCur := spareBefore
	globCur := globBefore
	var mutated string
	simrt.ResetSync()
	b.onSwitch = func(from int) {
		if mutated == "" && visibleHash(*shared) != before {
			mutated = fmt.Sprintf("task %d (%s)", from, sc.Tasks[from].Op)
		}
		now := map[string]uint64{}
		spareSlots(reflect.ValueOf(*shared), "File", now, 0)
		for k, h := range now {
			if spareCur[k] != h {
				if writers[k] == nil {
					writers[k] = map[int]bool{}
				}
				writers[k][from] = true
			}
		}
		spareCur = now
		gnow := globalsSnapshot()
		if gnow == nil {
			return
		}
		for k, h := range gnow {
			if globCur[k] != h {
				key := "global:" + k
				if len(simrt.HeldLocks()) > 0 {
					key += fmt.Sprintf("@locks%v", simrt.HeldLocks())
				}
				if writers[key] == nil {
					writers[key] = map[int]bool{}
				}
				writers[key][from] = true
			}
		}
		globCur = gnow
	}
	simrt.SyncHook = func(kind string, addr uintptr) {
		if b.cur != nil {
			b.onSwitch(b.cur.id)
		}
		b.syncOps++
		if b.pairBias && b.cur != nil {
			switch {
			case b.pairPhase == 0 && kind == "release" && b.rng.Chance(3, 4):
				b.pairPhase, b.pairFrom, b.pairAddr, b.pairCountdown, b.pairSince = 1, b.cur.id, addr, 1+b.rng.Intn(3), b.step
				b.pairStats[0]++
			case b.pairPhase == 2 && addr == b.pairAddr && b.cur.id != b.pairFrom:
				// the partner goes on for 1..2^16 yields (log-uniform): from "has just taken
				// it" to "has long finished with it"
				b.pairPhase, b.pairCountdown = 3, 1+b.rng.Intn(1<<uint(1+b.rng.Intn(16)))
				b.pairStats[2]++
			case b.pairPhase == 3 && addr == b.pairAddr && kind == "release" && b.cur.id != b.pairFrom:
				b.pairCountdown = 1 // the partner gave it back: time to return
			}
		}
		if b.syncBias && b.syncCountdown == 0 && b.rng.Chance(1, 2) {
			b.syncCountdown = 1 + b.rng.Intn(8)
		}
	}
	var fns []func() taskResult
	for i := range sc.Tasks {
		ts := sc.Tasks[i]
		ref := &refs[i]
		fns = append(fns, func() taskResult {
			var first taskResult
			for k := 0; k <= ts.Repeat; k++ {
				r := runTask(ts, shared, text)
				if k == 0 {
					first = r
				}
				if compareResult("concurrent", ts, ref, &r) != nil {
					return r // the first call of this caller that went wrong
				}
			}
			return first
		})
	}
	b.run(fns)
	simrt.SyncHook = nil
	sc.Switches = sc.Switches[:0]
	for _, s := range b.trace {
		sc.Switches = append(sc.Switches, s)
	}
	sc.Extra["steps"] = fmt.Sprint(b.step)
	sc.Extra["sync_ops"] = fmt.Sprint(b.syncOps)
	sc.Extra["sync_switches"] = fmt.Sprint(b.syncSwitches)
	sc.Extra["pair_stats"] = fmt.Sprint(b.pairStats[0], b.pairStats[1], b.pairStats[2], b.pairStats[3])
	h := fnv.New64a()
	for _, s := range b.trace {
		fmt.Fprintf(h, "%d:%d,", s.Step, s.Task)
	}
	sc.Extra["trace_hash"] = fmt.Sprintf("%x", h.Sum64())
	// verdicts
	for i, t := range b.tasks {
		if t.res.Panic != "" {
			return &Violation{Class: "panic", Signature: "panic|concurrent|" + sc.Tasks[i].Op, Detail: clipStr(t.res.Panic, 300), Facts: map[string]string{"op": sc.Tasks[i].Op}}
		}
	}
	if mutated != "" || visibleHash(*shared) != before {
		return &Violation{Class: "input-mutated", Signature: "input-mutated|concurrent", Detail: "the File shared by the callers changed while they ran; first noticed after a quantum of " + mutated,
			Facts: map[string]string{"import": sc.Extra["import"]}}
	}
	var raced []string
	for k, w := range writers {
		if len(w) >= 2 && !strings.Contains(k, "@locks") {
			raced = append(raced, k)
		}
	}
	if len(raced) > 0 {
		sort.Strings(raced)
		kind := "spare-capacity"
		if strings.HasPrefix(raced[0], "global:") {
			kind = "package-variable"
		}
		for _, k := range raced {
			if strings.HasPrefix(k, "global:") {
				kind = "package-variable"
				raced[0] = k
			}
		}
		return &Violation{Class: "race", Signature: "race|write-write|" + kind,
			Detail: fmt.Sprintf("%d memory locations were written by more than one concurrent caller with nothing ordering the writes, e.g. %s (tasks %v)", len(raced), raced[0], keysOf(writers[raced[0]])),
			Facts:  map[string]string{"kind": kind, "import": sc.Extra["import"], "spare": fmt.Sprint(spare > 0)}}
	}
	for i := range sc.Tasks {
		if v := compareResult("concurrent", sc.Tasks[i], &refs[i], &b.tasks[i].res); v != nil {
			return v
		}
	}
	return nil
}

func keysOf(m map[int]bool) []int {
	var out []int
	for k := range m {
		out = append(out, k)
	}
	sort.Ints(out)
	return out
}

// semanticErrors are appended to a valid schema: each has more than one place an error
// could be reported for.
var semanticErrors = []string{
	"struct SeA { SeB b; }\nstruct SeB { SeC c; }\nstruct SeC { SeA a; }\nstruct SeD { SeD d; }\nstruct SeE { SeF f; }\nstruct SeF { SeE e; }\n",
	"struct SeX { Ghost1 g; Ghost2 h; }\nstruct SeY { Ghost3 g; }\nmessage SeZ { 1 -> Ghost4 g; 2 -> Ghost5 h; }\n",
	"struct SeDup { int32 a; }\nstruct SeDup { int32 b; }\nstruct SeDup2 { }\nstruct SeDup2 { }\n",
	"enum SeEn { A = 1; B = 1; C = 2; D = 2; }\nenum SeEn2 : uint8 { X = 300; Y = 301; }\n",
	"[opcode(\"abcd\")]\nstruct SeOp1 { int32 a; }\n[opcode(\"abcd\")]\nstruct SeOp2 { int32 a; }\n[opcode(\"abcd\")]\nmessage SeOp3 { 1 -> int32 a; }\n",
	// only messages / only unions carry the errors (their members live in maps)
	"message SeM1 { 1 -> GhostA a; 2 -> GhostB b; 3 -> GhostC c; 4 -> GhostD d; }\nmessage SeM2 { 1 -> GhostE e; 2 -> GhostF f; }\n",
	"union SeU1 { 1 -> struct SeDupA { } 2 -> struct SeDupA { } 3 -> struct SeDupB { } 4 -> struct SeDupB { } 5 -> struct SeDupC { } 6 -> struct SeDupC { } }\n",
	"union SeU2 { 1 -> struct SeBr1 { GhostG g; } 2 -> struct SeBr2 { GhostH h; } 3 -> message SeBr3 { 1 -> GhostI i; } }\n",
	"message SeM3 { 1 -> int32 same; 2 -> int32 same; 3 -> int32 other; 4 -> int32 other; }\n",
	// an import graph with two cycles through the imported file (files written by prepareFile)
	"import \"cyca.bop\"\n",
}

// awkwardNames are definitions whose member and type names are spelled like things the
// generated Go source contains anyway; the generated source may or may not compile (no
// property says), but Generate must treat its input and its callers as for any other name.
var awkwardNames = []string{
	"struct AwkS { uint32 size; string marshalBebop; int32 encodeBebop; int32 decodeBebop; bool unmarshalBebop; byte marshalBebopTo; }\nmessage AwkM { 1 -> int32 size; 2 -> string encodeBebop; 3 -> bool mustUnmarshalBebop; }\nunion AwkU { 1 -> struct AwkUS { int32 size; guid mustUnmarshalBebop; } 2 -> message AwkUM { 1 -> int32 decodeBebop; } }\nreadonly struct AwkR { int32 size; int32 getSize; }\n",
	"struct AwkK { int32 type; int32 func; bool range; int32 go; int32 select; int32 chan; int32 defer; int32 package; int32 var; int32 interface; }\nmessage AwkKM { 1 -> int32 type; 2 -> int32 func; }\n",
	"struct AwkB { int32 len; int32 append; int32 make; int32 error; int32 nil; int32 iota; int32 bbp; int32 buf; int32 at; int32 iohelp; int32 err; int32 r; int32 w; int32 ln; int32 i; }\nunion AwkBU { 1 -> struct AwkBS { int32 buf; int32 at; } }\n",
	"struct AwkC { int32 value; int32 Value; int32 VALUE; }\nstruct awkLower { int32 a; }\nstruct AwkLower { int32 b; }\nmessage AwkCM { 1 -> int32 x; 2 -> int32 X; }\n",
	// a go_package hint in the importing file itself, with constants behind it
	"const string go_package = \"example.com/sim/mainpkg\";\nconst int32 awkGpA = 7;\nconst string awkGpB = \"b\";\nconst uint8 awkGpC = 3;\nstruct AwkGp { int32 a; }\n",
	"enum AwkE { size = 1; Size = 2; String = 3; }\nstruct AwkES { AwkE size; AwkE string_; }\nstruct Record { int32 a; }\nstruct Reader { Record record; }\nstruct NewAwkS { int32 a; }\nstruct MakeAwkS { NewAwkS newAwkS; }\n",
}

func compareResult(phase string, ts TaskSpec, ref, got *taskResult) *Violation {
	facts := map[string]string{"op": ts.Op, "phase": phase}
	if got.Panic != "" {
		return &Violation{Class: "panic", Signature: "panic|" + phase + "|" + ts.Op, Detail: clipStr(got.Panic, 300), Facts: facts}
	}
	if (ref.Err == nil) != (got.Err == nil) {
		return &Violation{Class: "nondeterministic-output", Signature: "nondeterministic|" + phase + "|" + ts.Op + "|error",
			Detail: fmt.Sprintf("%s alone: err=%v; %s: err=%v", ts.Op, ref.Err, phase, got.Err), Facts: facts}
	}
	if ref.Err != nil && got.Err != nil && ref.Err.Error() != got.Err.Error() {
		return &Violation{Class: "nondeterministic-output", Signature: "nondeterministic|" + phase + "|" + ts.Op + "|error-text",
			Detail: fmt.Sprintf("%s alone reports %q; %s: %q", ts.Op, clipStr(ref.Err.Error(), 200), phase, clipStr(got.Err.Error(), 200)), Facts: facts}
	}
	if ref.Err == nil && !bytes.Equal(ref.Out, got.Out) {
		at := firstDiff(ref.Out, got.Out)
		return &Violation{Class: "nondeterministic-output", Signature: "nondeterministic|" + phase + "|" + ts.Op + "|bytes",
			Detail: fmt.Sprintf("%s produced different output (%d vs %d bytes, first difference at %d: %q vs %q)", ts.Op, len(ref.Out), len(got.Out), at, ctxAt(ref.Out, at), ctxAt(got.Out, at)), Facts: facts}
	}
	if ref.FileHash != got.FileHash {
		return &Violation{Class: "nondeterministic-output", Signature: "nondeterministic|" + phase + "|readfile|file", Detail: "ReadFile returned a different File", Facts: facts}
	}
	return nil
}

func ctxAt(b []byte, at int) string {
	lo, hi := at-20, at+20
	if lo < 0 {
		lo = 0
	}
	if hi > len(b) {
		hi = len(b)
	}
	return string(b[lo:hi])
}

var _ = io.EOF
var _ = simnet.ErrReset
var _ unsafe.Pointer

// ---------------------------------------------------------------------------------
// reader-chunking independence of ReadFile and Format ("functions of their input alone")

func init() { execs["chunkindep"] = execChunkIndep }

func readerFor(text []byte, sched *simnet.Schedule) io.Reader {
	s := simnet.Schedule{}
	if sched != nil {
		s = *sched
	}
	return struct{ io.Reader }{simnet.NewLink(text, s, nil)}
}

func execChunkIndep(n *Node, sc *Scenario) *Violation {
	type out struct {
		fileHash uint64
		rerr     string
		fmtOut   []byte
		ferr     string
		panicked string
	}
	do := func(sched *simnet.Schedule) (o out) {
		defer func() {
			if p := recover(); p != nil {
				o.panicked = fmt.Sprint(p)
			}
		}()
		simrt.SetMapOrder(simrt.OrderCanonical, 0)
		defer simrt.SetMapOrder(simrt.OrderNative, 0)
		// a yield counter bounds the run: termination of Format on arbitrary text is not
		// this property's concern, so a runaway is cut off identically on both sides
		steps := 0
		simrt.AttachScheduler(func(int) {
			if steps++; steps > 3_000_000 {
				panic("step limit")
			}
		})
		defer simrt.DetachScheduler()
		f, _, err := bebop.ReadFile(readerFor(sc.Input, sched))
		o.fileHash = visibleHash(f)
		if err != nil {
			o.rerr = err.Error()
			return o // Format is only defined on text that ReadFile accepts
		}
		var buf bytes.Buffer
		if err := bebop.Format(readerFor(sc.Input, sched), &buf); err != nil {
			o.ferr = err.Error()
		}
		o.fmtOut = buf.Bytes()
		return o
	}
	a := do(&simnet.Schedule{Name: "all"})
	b := do(sc.Sched)
	switch {
	case a.panicked != "" || b.panicked != "":
		// panics on malformed input are C10/C16 matters; only disagreement counts here
		if a.panicked != b.panicked {
			return &Violation{Class: "nondeterministic-output", Signature: "nondeterministic|chunking|panic", Detail: fmt.Sprintf("%q vs %q", a.panicked, b.panicked)}
		}
	case a.rerr != b.rerr:
		return &Violation{Class: "nondeterministic-output", Signature: "nondeterministic|chunking|readfile|error", Detail: fmt.Sprintf("ReadFile error depends on how the reader chunks its data: %q vs %q", a.rerr, b.rerr)}
	case a.fileHash != b.fileHash:
		return &Violation{Class: "nondeterministic-output", Signature: "nondeterministic|chunking|readfile|file", Detail: "ReadFile result depends on how the reader chunks its data"}
	case a.ferr != b.ferr || !bytes.Equal(a.fmtOut, b.fmtOut):
		return &Violation{Class: "nondeterministic-output", Signature: "nondeterministic|chunking|format", Detail: fmt.Sprintf("Format output depends on how the reader chunks its data (%d vs %d bytes, errors %q / %q)", len(a.fmtOut), len(b.fmtOut), a.ferr, b.ferr)}
	}
	return nil
}

// ---------------------------------------------------------------------------------
// fresh-process oracle: the result of a call must not depend on what the process did
// before it. The node re-executes itself with -oneshot to obtain the result of the very
// same call as the FIRST thing a process does.

type oneshotReq struct {
	Bop        string   `json:"bop"`
	WithImport bool     `json:"import"`
	Spare      int      `json:"spare"`
	Task       TaskSpec `json:"task"`
	ImpVer     int      `json:"imp_ver,omitempty"`
}

type oneshotRes struct {
	OutHash  string `json:"out"`
	OutLen   int    `json:"len"`
	ErrNil   bool   `json:"err_nil"`
	ErrText  string `json:"err"`
	FileHash uint64 `json:"file"`
	Panic    string `json:"panic,omitempty"`
}

// normErrText removes the scratch directory of the process from an error text (import
// paths are reported in full).
func normErrText(s string) string {
	if c14ws != nil {
		s = strings.ReplaceAll(s, c14ws.dir, "<ws>")
	}
	return reWsDir.ReplaceAllString(s, "<ws>")
}

var reWsDir = regexp.MustCompile(`/[^ :"]*verif-c14-[^/ :"]*`)

func hashOut(b []byte) string {
	h := fnv.New64a()
	h.Write(b)
	return fmt.Sprintf("%016x", h.Sum64())
}

func oneshotMain() int {
	var req oneshotReq
	if err := json.NewDecoder(os.Stdin).Decode(&req); err != nil {
		fmt.Fprintln(os.Stderr, err)
		return 2
	}
	c14ImpVer = req.ImpVer
	f, text, err := prepareFile(req.Bop, req.WithImport, req.Spare)
	if err != nil {
		json.NewEncoder(os.Stdout).Encode(oneshotRes{ErrText: "parse: " + err.Error()})
		return 0
	}
	simrt.SetMapOrder(simrt.OrderCanonical, 0)
	r := runTask(req.Task, f, text)
	out := oneshotRes{OutHash: hashOut(r.Out), OutLen: len(r.Out), ErrNil: r.Err == nil, FileHash: r.FileHash, Panic: r.Panic}
	if r.Err != nil {
		out.ErrText = r.Err.Error()
	}
	json.NewEncoder(os.Stdout).Encode(out)
	if c14ws != nil {
		os.RemoveAll(c14ws.dir)
	}
	return 0
}

var freshCache = map[string]*oneshotRes{}

// freshResult runs the task in a fresh process (memoised per call description).
func freshResult(bop string, withImport bool, spare int, ts TaskSpec) (*oneshotRes, error) {
	ts.MapOrder = MapOrder{}
	req := oneshotReq{Bop: bop, WithImport: withImport, Spare: spare, Task: ts, ImpVer: c14ImpVer}
	key, _ := json.Marshal(req)
	if r, ok := freshCache[string(key)]; ok {
		return r, nil
	}
	if len(freshCache) > 512 {
		freshCache = map[string]*oneshotRes{}
	}
	cmd := exec.Command(os.Args[0], "-oneshot")
	cmd.Stdin = bytes.NewReader(key)
	var so bytes.Buffer
	cmd.Stdout = &so
	if err := cmd.Run(); err != nil {
		return nil, err
	}
	var res oneshotRes
	if err := json.Unmarshal(so.Bytes(), &res); err != nil {
		return nil, err
	}
	freshCache[string(key)] = &res
	return &res, nil
}
