package harness

import (
	"bytes"
	"fmt"
	"io"
	"regexp"
	"strings"

	"github.com/200sc/bebop"

	"verif/pkg/prng"
	"verif/pkg/schema"
	"verif/pkg/simnet"
	"verif/simrt"
)

// C10: ReadFile always terminates, reports reader failures, and never silently drops
// part of a schema.

func init() {
	props["C10"] = runC10
	execs["readfile"] = execReadFile
}

var c10Readers = []string{"plain", "named", "plain", "named", "fat", "limited", "limited-tight", "bufio", "bytereader", "bytesreader", "bytesbuffer", "stringsreader"}

const freshDef = "struct Zq9Vx { int32 a; }\n"

type namedReader struct{ io.Reader }

func (namedReader) Name() string { return "sim.bop" }

var junk = []string{"@x(", "@since(2", "@a(b: (1 << 4)", "@flags", "@opcode(\"ABCD\")", "#[attr(", "@x", "$x[", "%x{", "@range(min: 1, max: 10", "@(", "/*", "/* x", "/* x *", "\"abc", "\"a\\", "//", "// c", "/", "-", "-i", "-in", "0x", "1.", "1e", "1.5.", "\x00", "\xff\xfe", "é", "日本",
	"#", "@", "$", "`", "'", "<", ">", ">", "<<", ">>", "struct", "message M {", "enum E : ", "enum E {", "[", "[opcode(", "[opcode(\"abcd\")]", "[deprecated(\"x\")]",
	"[flags]", "map[", "array[", "->", "readonly", "readonly struct", "const", "const int32 x =", "import", "import \"a.bop\"", "union U {", "1 ->", "}", "{", ";", ",",
	"[flags]\nenum F { A = 1 |; }", "[flags]\nenum F { A = 1; B = A <<; }", "[flags]\nenum F : int64 { A = (1 | 2) &; }", "[flags]\nenum F { A = (1 |); }", "[flags]\nenum F { A = (); }",
	"[flags]\nenum F { A = 1 << 70; }", "[flags]\nenum F { A = ; }", "[flags]\nenum F { A = 1 | | 2; }", "[flags]\nenum F { A = ((1); }", "[flags]\nenum F { A = B; }",
	"struct S { int32 a; }", "message M { 1 -> int32 a; }", "union U { 1 -> struct A { } }", "enum E { A = 1; }", "const int32 c = 5;", "\r\n", "\t", " "}

var tokenVocab = []string{"struct", "message", "enum", "union", "const", "readonly", "import", "opcode", "flags", "deprecated", "map", "array",
	"int32", "string", "Foo", "a", "1", "0x1", "-1", "1.5", "\"s\"", "{", "}", "[", "]", "(", ")", ";", ",", "=", "->", ":", "|", "&", "<<", ">>", "\n",
	"// c\n", "/* c */", "inf", "true"}

// lexPieces are the characters number, string and comment lexemes are made of: strings over
// them are what a tokenizer's look-ahead and push-back logic has to survive.
var lexPieces = []string{"0", "1", "9", "e", "E", "+", "-", ".", "x", "_", "f", "i", "n"}
var lexMore = []string{"\"", "\\", "/", "*", "'", "0x", "inf", "nan", "a", "\n", " ", ">", "<", "|", "&", "(", ")", "#"}

// lexContexts are places where a literal is expected; %s takes the lexeme string.
var lexContexts = []string{"%s", "const float64 k = %s;\n", "enum E { A = %s; }\n", "message M { %s -> int32 a; }\n", "[flags]\nenum F { A = 1 << %s; B = %s | 1; }\n",
	"[opcode(%s)]\nstruct S { int32 a; }\n", "const string s = \"%s\";\n", "struct S { [deprecated(\"%s\")] int32 a; }\n", "/* %s */ struct S { int32 a; }\n", "const int64 k = %s"}

// lexString returns the k-th string over lexPieces of length 1..3 (k < lexCount).
const lexCount = 13 + 13*13 + 13*13*13

func lexString(k int) string {
	n := len(lexPieces)
	switch {
	case k < n:
		return lexPieces[k]
	case k < n+n*n:
		k -= n
		return lexPieces[k/n] + lexPieces[k%n]
	}
	k -= n + n*n
	return lexPieces[k/(n*n)] + lexPieces[(k/n)%n] + lexPieces[k%n]
}

// cmtString returns the k-th string of length 1..5 over the characters remarks are made of.
const cmtCount = 4 + 16 + 64 + 256 + 1024

func cmtString(k int) string {
	const alpha = "/* x"
	n := 1
	for size := 4; k >= size; size *= 4 {
		k -= size
		n++
	}
	b := make([]byte, n)
	for i := n - 1; i >= 0; i-- {
		b[i] = alpha[k%4]
		k /= 4
	}
	return string(b)
}

func lexSoup(r *prng.Rand) string {
	var sb strings.Builder
	for i, n := 0, r.Range(1, 8); i < n; i++ {
		if r.Chance(3, 4) {
			sb.WriteString(lexPieces[r.Intn(len(lexPieces))])
		} else {
			sb.WriteString(lexMore[r.Intn(len(lexMore))])
		}
	}
	return sb.String()
}

func inLexContext(ctx, s string) string { return strings.ReplaceAll(ctx, "%s", s) }

// weirdInts are integer literals at and beyond every width's edges.
var weirdInts = []string{"0", "1", "2", "7", "8", "15", "16", "31", "32", "33", "63", "64", "65", "127", "128", "255", "256", "65535", "65536",
	"-1", "-2", "-8", "-63", "-64", "-65", "-128", "-129", "-32768", "-32769", "2147483647", "2147483648", "-2147483648", "-2147483649",
	"4294967295", "4294967296", "9223372036854775807", "9223372036854775808", "-9223372036854775808", "-9223372036854775809",
	"18446744073709551615", "18446744073709551616", "99999999999999999999999", "0x0", "0xff", "0x7fffffffffffffff", "0xffffffffffffffff",
	"0x10000000000000000", "-0x1", "00", "007", "1e3", "1.0", "-0", "0b1", "1_000"}

var soupBases = []string{"", " : byte", " : uint8", " : uint16", " : int16", " : uint32", " : int32", " : uint64", " : int64", " : string", " : float32", " : Foo"}

func flagExprSoup(r *prng.Rand, depth int, names []string) string {
	if depth <= 0 || r.Chance(1, 3) {
		if r.Chance(1, 4) {
			return append(names, "Zzz")[r.Intn(len(names)+1)]
		}
		return weirdInts[r.Intn(len(weirdInts))]
	}
	a, b := flagExprSoup(r, depth-1, names), flagExprSoup(r, depth-1, names)
	e := a + " " + []string{"|", "&", "<<", ">>", "<<", ">>"}[r.Intn(6)] + " " + b
	if r.Chance(1, 3) {
		e = "(" + e + ")"
	}
	return e
}

// semanticSoup draws definitions whose syntax is fine and whose meaning is anything:
// [flags] expressions over every literal and operator (negative and oversized shift counts,
// undefined and self references), enum values and message indices outside every range,
// constants that do not fit their type, opcodes of any form, unknown and self-containing
// types, deep type expressions. ReadFile may accept or reject them; it must not panic.
func semanticSoup(r *prng.Rand) string {
	var sb strings.Builder
	n := r.Range(1, 3)
	for i := 0; i < n; i++ {
		name := fmt.Sprintf("D%d", i)
		switch r.Intn(7) {
		case 0, 1:
			if r.Chance(3, 4) {
				sb.WriteString("[flags]\n")
			}
			fmt.Fprintf(&sb, "enum %s%s {\n", name, soupBases[r.Intn(len(soupBases))])
			var names []string
			for k, m := 0, r.Range(1, 4); k < m; k++ {
				on := fmt.Sprintf("O%d", k)
				if r.Chance(1, 8) && k > 0 {
					on = "O0"
				}
				fmt.Fprintf(&sb, "  %s = %s;\n", on, flagExprSoup(r, r.Intn(4), append(names, on)))
				names = append(names, on)
			}
			sb.WriteString("}\n")
		case 2:
			fmt.Fprintf(&sb, "message %s {\n", name)
			for k, m := 0, r.Range(1, 4); k < m; k++ {
				fmt.Fprintf(&sb, "  %s -> %s f%d;\n", weirdInts[r.Intn(len(weirdInts))], soupType(r, 3), k)
			}
			sb.WriteString("}\n")
		case 3:
			types := []string{"bool", "byte", "uint8", "uint16", "int16", "uint32", "int32", "uint64", "int64", "float32", "float64", "string", "guid", "date", "Foo", "int32[]"}
			lits := append([]string{"true", "false", "inf", "-inf", "nan", "1e999", "-1e999", "1.5", "\"s\"", "\"\"", "\"e215a946-b26f-4567-a276-13136f0a1708\"", "\"e215a946\"", "\"zz15a946-b26f-4567-a276-13136f0a1708\""}, weirdInts...)
			fmt.Fprintf(&sb, "const %s %s = %s;\n", types[r.Intn(len(types))], name, lits[r.Intn(len(lits))])
		case 4:
			ops := []string{"\"abcd\"", "\"abc\"", "\"abcde\"", "\"\"", "\"\u00e9\u00e9\"", "0x1", "0xffffffff", "0x100000000", "-1", "1", "abcd", "0x"}
			fmt.Fprintf(&sb, "[opcode(%s)]\n", ops[r.Intn(len(ops))])
			if r.Bool() {
				fmt.Fprintf(&sb, "struct %s { %s a; }\n", name, soupType(r, 2))
			} else {
				fmt.Fprintf(&sb, "message %s { 1 -> %s a; }\n", name, soupType(r, 2))
			}
		case 5:
			fmt.Fprintf(&sb, "%sstruct %s {\n", []string{"", "readonly ", "[deprecated(\"x\")]\n"}[r.Intn(3)], name)
			for k, m := 0, r.Range(0, 4); k < m; k++ {
				if r.Chance(1, 4) {
					sb.WriteString("  [deprecated(\"gone\")]\n")
				}
				fmt.Fprintf(&sb, "  %s f%d;\n", soupType(r, 4), k)
			}
			sb.WriteString("}\n")
		default:
			fmt.Fprintf(&sb, "union %s {\n", name)
			for k, m := 0, r.Range(0, 3); k < m; k++ {
				kind := []string{"struct", "message", "enum", "union"}[r.Intn(4)]
				body := "int32 a;"
				switch kind {
				case "message":
					body = "1 -> int32 a;"
				case "enum":
					body = "A = 1;"
				case "union":
					body = "1 -> struct In { }"
				}
				fmt.Fprintf(&sb, "  %s -> %s %sB%d { %s }\n", weirdInts[r.Intn(len(weirdInts))], kind, name, k, body)
			}
			sb.WriteString("}\n")
		}
	}
	return sb.String()
}

func soupType(r *prng.Rand, depth int) string {
	base := []string{"int32", "string", "byte", "guid", "date", "bool", "float64", "Foo", "D0", "D1", "D2", "map", "array", "uint8"}
	if depth <= 0 || r.Chance(1, 2) {
		return base[r.Intn(len(base))]
	}
	switch r.Intn(4) {
	case 0:
		return soupType(r, depth-1) + "[]"
	case 1:
		return "array[" + soupType(r, depth-1) + "]"
	case 2:
		return "map[" + soupType(r, 0) + ", " + soupType(r, depth-1) + "]"
	}
	return "map[" + soupType(r, depth-1) + ", " + soupType(r, depth-1) + "]"
}

// padSchema appends comment lines to a schema so that the text is exactly n bytes long
// (or as close as a final newline allows).
func padSchema(s string, n int) string {
	var sb strings.Builder
	sb.WriteString(s)
	if !strings.HasSuffix(s, "\n") {
		sb.WriteString("\n")
	}
	const line = "// padding padding padding padding padding padding padding 64b\n"
	for sb.Len()+len(line) <= n {
		sb.WriteString(line)
	}
	if rest := n - sb.Len(); rest >= 3 {
		sb.WriteString("//")
		for i := 0; i < rest-3; i++ {
			sb.WriteByte('x')
		}
		sb.WriteString("\n")
	} else {
		for i := 0; i < rest; i++ {
			sb.WriteString("\n")
		}
	}
	return sb.String()
}

func runC10(c *Ctx) *Replay {
	r := c.R
	var input []byte
	origin := ""
	vocabRuns := len(tokenVocab) + len(tokenVocab)*len(tokenVocab)
	lexRuns := 0
	if c.N.Batch.Runs >= vocabRuns+2*lexCount+1000 {
		lexRuns = 2 * lexCount
	}
	cmtRuns := 0
	if c.N.Batch.Runs >= vocabRuns+lexRuns+2*cmtCount+1000 {
		cmtRuns = 2 * cmtCount
	}
	fewFaults := false
	switch {
	case cmtRuns > 0 && c.Run >= c.N.Batch.Runs-lexRuns-cmtRuns && c.Run < c.N.Batch.Runs-lexRuns:
		// exhaustive: every string of 1..5 characters over the remark alphabet (slash, star,
		// blank, a letter), at top level and in front of a field
		k := c.Run - (c.N.Batch.Runs - lexRuns - cmtRuns)
		input = []byte(cmtString(k/2) + "\n")
		if k%2 == 1 {
			input = []byte("struct S {\n" + cmtString(k/2) + "\nint32 a;\n}\n")
		}
		origin = "remarks<=5"
		fewFaults = k%16 > 1
	case lexRuns > 0 && c.Run >= c.N.Batch.Runs-lexRuns:
		// exhaustive: every string of 1..3 lexeme characters where a literal is expected
		// (the last runs of the batch; failures of the reader are injected for one in eight)
		k := c.Run - (c.N.Batch.Runs - lexRuns)
		input = []byte(inLexContext(lexContexts[1], lexString(k/2)))
		if k%2 == 1 {
			input = []byte(lexString(k/2) + " ")
		}
		origin = "lex<=3"
		fewFaults = k%16 > 1
	case c.Run < vocabRuns:
		// exhaustive: every token string of length 1 and 2
		if c.Run < len(tokenVocab) {
			input = []byte(tokenVocab[c.Run])
		} else {
			k := c.Run - len(tokenVocab)
			input = []byte(tokenVocab[k/len(tokenVocab)] + " " + tokenVocab[k%len(tokenVocab)])
		}
		origin = "tokens<=2"
	case c.param("tokens3", 0) == 1 && c.Run < vocabRuns+len(tokenVocab)*len(tokenVocab)*len(tokenVocab):
		k := c.Run - vocabRuns
		n := len(tokenVocab)
		input = []byte(tokenVocab[k/(n*n)] + " " + tokenVocab[(k/n)%n] + " " + tokenVocab[k%n])
		origin = "tokens3"
	case r.Chance(1, 40):
		// a LARGE valid schema: comment padding brings its length to a power of two between
		// 64 KiB and 4 MiB, give or take a byte (buffer sizes, size limits)
		input = []byte(padSchema(c.layoutSchema(), (1<<uint(r.Range(16, 22)))+[]int{-1, 0, 1, 17}[r.Intn(4)]))
		origin = "large"
	default:
		switch r.Intn(11) {
		case 10: // LONG soup: dozens to hundreds of fragments (error lists, caps and counters
			// fill up), ending with or without a newline, in a letter, a digit or a sign
			var sb strings.Builder
			pools := [][]string{junk, tokenVocab, lexMore, lexPieces}
			pool := pools[r.Intn(len(pools))]
			mixed := r.Chance(1, 3)
			n := []int{19, 20, 21, 22, 40, 64, 65, 100, 128, 129, 256, 300}[r.Intn(12)]
			if r.Chance(1, 4) {
				// the same line over and over (a file of another format)
				line := []string{"- name: x", "<a", "key = value", "/x", "-x", "{ \"a\": 1 },", "#include <x>", "1e", "@a"}[r.Intn(9)]
				for i := 0; i < n; i++ {
					sb.WriteString(line)
					sb.WriteString([]string{"\n", " ", "\r\n"}[r.Intn(3)])
				}
			} else {
				for i := 0; i < n; i++ {
					if mixed {
						pool = pools[r.Intn(len(pools))]
					}
					sb.WriteString(pool[r.Intn(len(pool))])
					sb.WriteString([]string{" ", "", "\n", " "}[r.Intn(4)])
				}
			}
			txt := sb.String()
			switch r.Intn(4) {
			case 0:
				txt = strings.TrimRight(txt, " \r\n")
			case 1:
				txt = strings.TrimRight(txt, " \r\n") + []string{"a", "z9", "struct", "x", "1", "-", "_"}[r.Intn(7)]
			}
			input = []byte(txt)
			origin = "longsoup"
		case 9: // lexeme soup where a literal is expected
			input = []byte(inLexContext(lexContexts[r.Intn(len(lexContexts))], lexSoup(r)))
			origin = "lexsoup"
		case 8: // well-formed syntax, arbitrary meaning
			input = []byte(semanticSoup(r))
			origin = "semsoup"
		case 0, 1: // a valid schema in some layout
			input = []byte(c.layoutSchema())
			origin = "valid"
		case 2: // torn valid schema
			s := c.layoutSchema()
			if len(s) > 0 {
				s = s[:r.Intn(len(s))]
			}
			input = []byte(s)
			origin = "torn"
		case 3: // valid schema with junk inserted
			s := c.layoutSchema()
			pos := 0
			if len(s) > 0 {
				pos = r.Intn(len(s) + 1)
			}
			if r.Bool() {
				pos = len(s)
			}
			input = []byte(s[:pos] + junk[r.Intn(len(junk))] + s[pos:])
			origin = "junk"
		case 6: // token-level mutation of a valid schema: delete, duplicate, swap or replace one token
			input = []byte(mutateTokens(r, c.layoutSchema()))
			origin = "tokenmut"
		case 4: // token soup
			n := r.Range(1, 12)
			var sb strings.Builder
			for i := 0; i < n; i++ {
				sb.WriteString(tokenVocab[r.Intn(len(tokenVocab))])
				sb.WriteString([]string{" ", "", "\n", " "}[r.Intn(4)])
			}
			input = []byte(sb.String())
			origin = "soup"
		case 7:
			input = []byte(mutateTokens(r, mutateTokens(r, c.layoutSchema())))
			origin = "tokenmut2"
		default: // junk only
			n := r.Range(1, 4)
			var sb strings.Builder
			for i := 0; i < n; i++ {
				sb.WriteString(junk[r.Intn(len(junk))])
				sb.WriteString([]string{" ", "", "\n"}[r.Intn(3)])
			}
			input = []byte(sb.String())
			origin = "junkonly"
		}
	}
	c.Log("C10", origin, len(input))
	c.Count("input:"+origin, 1)
	if c.Run%97 == 0 {
		c.Sample(map[string]interface{}{"origin": origin, "input": clipStr(string(input), 300)})
	}
	// 1. fault-free parse under a drawn schedule, with the completeness probe
	sc := Scenario{Kind: "readfile", Input: input, Sched: drawSchedule(r, len(input), nil), Reader: c10Readers[r.Intn(len(c10Readers))], Extra: map[string]string{"complete": "1"}}
	if len(input) > 1<<15 {
		// large inputs are read in large pieces (a million one-byte reads cost minutes)
		sc.Sched = &simnet.Schedule{Name: "fixed", Repeat: []int{0, 4096, 65536, 1000}[r.Intn(4)]}
		if sc.Sched.Repeat == 0 {
			sc.Sched.Name = "all"
		}
	}
	viol := execReadFile(c.N, &sc)
	c.Count("evaluations", 1)
	c.Count("outcome:"+sc.Extra["outcome"], 1)
	c.Count("sched:"+sc.Sched.Name, 1)
	c.State("c10", origin, sc.Extra["outcome"], sc.Sched.Name)
	c.State("c10input", string(input))
	if viol != nil {
		c.Log(viol.Signature)
		if rp := c.shrinkInput(&sc, viol); rp != nil {
			return rp
		}
	}
	// 2. reader failure at every offset (small inputs), sampled offsets otherwise
	var offs []int
	if fewFaults {
		offs = append(offs, r.Intn(len(input)))
	} else if len(input) <= 400 {
		for k := 0; k < len(input); k++ {
			offs = append(offs, k)
		}
	} else if len(input) > 1<<15 {
		for i := 0; i < 3; i++ {
			offs = append(offs, r.Intn(len(input)))
		}
	} else {
		for i := 0; i < 64; i++ {
			offs = append(offs, r.Intn(len(input)))
		}
	}
	menu := append([]string{"unexpected-eof", "closed-pipe", "reset", "custom"}, simnet.TemporaryNames...)
	// a reader that neither ends nor fails: from some offset on every Read returns (0, nil)
	for i := 0; i < 3 && len(offs) > 0; i++ {
		k := offs[r.Intn(len(offs))]
		fs := Scenario{Kind: "readfile", Input: input, Reader: []string{"plain", "named", "fat", "limited", "bufio", "bytereader"}[r.Intn(6)], Sched: drawSchedule(r, len(input), nil),
			RFault: &simnet.ReadFault{At: k, Err: "stall"}}
		if len(input) > 1<<15 {
			fs.Sched = &simnet.Schedule{Name: "fixed", Repeat: 4096}
		}
		viol := execReadFile(c.N, &fs)
		c.Count("evaluations", 1)
		c.Count("fault:read-stall-forever", 1)
		c.State("c10f", origin, "stall", fs.Extra["outcome"])
		if viol != nil {
			if rp := c.shrinkInput(&fs, viol); rp != nil {
				return rp
			}
		}
	}
	for _, k := range offs {
		for variant := 0; variant < 3; variant++ {
			fs := Scenario{Kind: "readfile", Input: input, Reader: []string{"plain", "plain", "named", "fat", "limited", "bufio", "bytereader"}[(k+variant)%7], Sched: &simnet.Schedule{Name: "all"},
				RFault: &simnet.ReadFault{At: k, Err: menu[r.Intn(len(menu))]}}
			fk := "read-bare"
			switch variant {
			case 1:
				fs.RFault.Partial = true
				fs.Sched = drawSchedule(r, len(input), nil)
				if len(input) > 1<<15 {
					fs.Sched = &simnet.Schedule{Name: "fixed", Repeat: 4096}
				}
				fk = "read-partial"
			case 2:
				fs.RFault.Transient = true
				fs.RFault.Partial = k%2 == 1 // a short read WITH the error, then the stream goes on
				fk = "read-transient"
			}
			viol := execReadFile(c.N, &fs)
			c.Count("evaluations", 1)
			if fs.Extra["fired"] == "1" {
				c.Count("fault:"+fk, 1)
				c.State("c10f", origin, fk, fs.Extra["outcome"])
			} else {
				c.Count("fault_not_fired", 1)
			}
			if viol != nil {
				c.Log(k, variant, viol.Signature)
				if rp := c.shrinkInput(&fs, viol); rp != nil {
					return rp
				}
			}
		}
	}
	return nil
}

func (c *Ctx) layoutSchema() string {
	ps := c.N.Batch.Programs
	if len(ps) == 0 {
		return freshDefOther
	}
	p := ps[c.R.Intn(len(ps))]
	l := schema.Layout{Indent: []string{"    ", "\t", "  ", ""}[c.R.Intn(4)], CRLF: c.R.Chance(1, 4), OneLine: c.R.Chance(1, 4), Comments: true, Block: c.R.Bool(),
		Trailing: []int{0, 0, 1, 2}[c.R.Intn(4)], SameLine: c.R.Chance(1, 4)}
	return p.Schema.PrintLayout(l)
}

const freshDefOther = "struct Only { int32 a; }\n"

// shrinkInput minimises the input bytes (drop chunks, then single bytes) while the
// signature stays the same.
func (c *Ctx) shrinkInput(sc *Scenario, v *Violation) *Replay {
	rp, fresh := c.gate(sc, v, nil)
	if !fresh {
		return rp
	}
	budget := 800
	try := func(in []byte, at int) bool {
		if budget <= 0 {
			return false
		}
		budget--
		cand := cloneScenario(&rp.Scenario)
		cand.Input = in
		if cand.RFault != nil {
			cand.RFault.At = at
		}
		nv := execReadFile(c.N, &cand)
		if nv != nil && nv.Signature == v.Signature {
			rp.Scenario = cand
			rp.Violation = *nv
			rp.Violation.Property = rp.Property
			rp.Shrunk++
			return true
		}
		return false
	}
	// simplest schedule first
	if rp.Scenario.Sched != nil && rp.Scenario.Sched.Name != "all" {
		cand := cloneScenario(&rp.Scenario)
		cand.Sched = &simnet.Schedule{Name: "all"}
		if nv := execReadFile(c.N, &cand); nv != nil && nv.Signature == v.Signature {
			rp.Scenario = cand
		}
	}
	for chunk := len(rp.Scenario.Input) / 2; chunk >= 1; chunk /= 2 {
		for i := 0; i+chunk <= len(rp.Scenario.Input) && budget > 0; {
			in := rp.Scenario.Input
			cand := append(append([]byte(nil), in[:i]...), in[i+chunk:]...)
			at := 0
			if rp.Scenario.RFault != nil {
				at = rp.Scenario.RFault.At
				if at >= i+chunk {
					at -= chunk
				} else if at > i {
					at = i
				}
			}
			if !try(cand, at) {
				i += chunk
			}
		}
	}
	return rp
}

func hasFresh(f bebop.File) bool {
	for _, st := range f.Structs {
		if st.Name == "Zq9Vx" && len(st.Fields) == 1 && st.Fields[0].Name == "a" && st.Fields[0].Simple == "int32" {
			return true
		}
	}
	return false
}

type parseOut struct {
	File bebop.File
	Err  error
	Call callResult
	Link *simnet.Link
}

func parse(input []byte, sched *simnet.Schedule, rf *simnet.ReadFault, reader string) parseOut {
	var out parseOut
	s := simnet.Schedule{}
	if sched != nil {
		s = *sched
	}
	out.Link = simnet.NewLink(input, s, rf)
	var rd io.Reader = struct{ io.Reader }{out.Link}
	switch reader {
	case "named":
		rd = namedReader{out.Link}
	case "fat", "limited", "limited-tight", "bufio", "bytereader":
		// readers with optional capabilities or of concrete standard types over the link
		rd = wrapReader(reader, out.Link).r
	case "bytesreader", "bytesbuffer", "stringsreader":
		// concrete readers that know their length (they cannot fail: fault-free parses only)
		if rf == nil {
			switch reader {
			case "bytesreader":
				rd = bytes.NewReader(input)
			case "bytesbuffer":
				rd = bytes.NewBuffer(append([]byte(nil), input...))
			default:
				rd = strings.NewReader(string(input))
			}
		}
	}
	simrt.SetMapOrder(simrt.OrderCanonical, 0)
	out.Call = safeCall(64<<20, int64(200000+200*len(input)), func() {
		out.File, _, out.Err = bebop.ReadFile(rd)
	})
	simrt.SetMapOrder(simrt.OrderNative, 0)
	return out
}

func readFileViolation(cr *callResult, what string) *Violation {
	where, stmt, top := site(cr.Frames)
	class := "panic"
	if cr.Sentinel != nil {
		class = cr.Sentinel.Kind
	}
	return &Violation{Class: class, Signature: fmt.Sprintf("%s|readfile|%s|%s", class, where, stmt), Detail: clipStr(what+": "+cr.PanicText(), 300), Stack: top, Stmt: stmt,
		Facts: map[string]string{"where": where}}
}

func execReadFile(n *Node, sc *Scenario) *Violation {
	if sc.Extra == nil {
		sc.Extra = map[string]string{}
	}
	po := parse(sc.Input, sc.Sched, sc.RFault, sc.Reader)
	sc.Extra["fired"] = "0"
	if po.Link.FaultFired {
		sc.Extra["fired"] = "1"
	}
	if po.Call.Panicked {
		sc.Extra["outcome"] = "panic"
		v := readFileViolation(&po.Call, "ReadFile")
		v.Facts["fault"] = sc.Extra["fired"]
		if sc.RFault != nil {
			v.Facts["fault_at_zero"] = fmt.Sprint(sc.RFault.At == 0)
		}
		return v
	}
	if po.Err != nil {
		sc.Extra["outcome"] = "error"
	} else {
		sc.Extra["outcome"] = "ok"
	}
	if sc.RFault == nil && sc.Sched != nil && (len(sc.Sched.Chunks) > 0 || sc.Sched.Repeat > 0 || (sc.Reader != "plain" && sc.Reader != "named" && sc.Reader != "")) {
		// the same bytes delivered in one piece must give the same answer
		// (and through the plainest reader: what a reader can do besides Read must not matter;
		// a reader with a Name() legitimately names the File)
		wk := "plain"
		if sc.Reader == "named" {
			wk = "named"
		}
		whole := parse(sc.Input, nil, nil, wk)
		if !whole.Call.Panicked {
			e1, e2 := "", ""
			if po.Err != nil {
				e1 = po.Err.Error()
			}
			if whole.Err != nil {
				e2 = whole.Err.Error()
			}
			if e1 != e2 || (po.Err == nil && visibleHash(po.File) != visibleHash(whole.File)) {
				return &Violation{Class: "nondeterministic-output", Signature: "chunking-dependent|readfile",
					Detail: fmt.Sprintf("ReadFile of the same %d bytes gives a different result when the reader delivers them in chunks (%s): %q vs %q", len(sc.Input), sc.Sched.Name, clipStr(e1, 120), clipStr(e2, 120))}
			}
		}
	}
	if po.Link.ErrReturned && po.Err == nil {
		mode := "permanent"
		if sc.RFault.Transient {
			mode = "transient"
		}
		ctx := tokenContext(sc.Input, sc.RFault.At)
		return &Violation{Class: "nil-error", Signature: "nil-error|readfile|io-error|" + ctx,
			Detail: fmt.Sprintf("the reader returned %q at byte %d of %d (%s) but ReadFile returned a nil error and a File with %d definitions", simnet.ErrorByName(sc.RFault.Err), sc.RFault.At, len(sc.Input), mode,
				len(po.File.Structs)+len(po.File.Messages)+len(po.File.Enums)+len(po.File.Unions)+len(po.File.Consts)),
			Facts: map[string]string{"mode": mode, "context": ctx}}
	}
	if po.Err == nil && sc.Reader != "bytesreader" && sc.Reader != "bytesbuffer" && sc.Reader != "stringsreader" && po.Link.Pos < len(sc.Input) {
		// success is a statement about the WHOLE input: it cannot be made before the reader
		// has handed over its last byte
		return &Violation{Class: "silent-drop", Signature: "silent-drop|readfile|input-not-read",
			Detail: fmt.Sprintf("ReadFile returned a nil error after taking only %d of the %d bytes its reader (%s) had to give", po.Link.Pos, len(sc.Input), sc.Reader),
			Facts:  map[string]string{"context": "input-not-read", "reader": sc.Reader}}
	}
	if sc.Extra["complete"] == "1" && po.Err == nil && sc.RFault == nil {
		ext := append(append(append([]byte(nil), sc.Input...), '\n'), freshDef...)
		// through the same kind of reader the input itself came through (a reader that names
		// itself gives the longer input under the same name, as a file that grew does)
		wk := "plain"
		if sc.Reader == "named" {
			wk = "named"
		}
		p2 := parse(ext, nil, nil, wk)
		if p2.Call.Panicked {
			return readFileViolation(&p2.Call, "ReadFile(input + fresh definition)")
		}
		if p2.Err == nil && !hasFresh(p2.File) {
			ctx := tailContext(sc.Input)
			return &Violation{Class: "silent-drop", Signature: "silent-drop|readfile|" + ctx,
				Detail: fmt.Sprintf("ReadFile accepted the %d-byte input, and also accepted it with %q appended, but the resulting File does not contain the appended definition: part of the input is silently ignored (tail: %q)",
					len(sc.Input), strings.TrimSpace(freshDef), clipStr(tailOf(sc.Input, 40), 60)),
				Facts: map[string]string{"context": ctx}}
		}
	}
	return nil
}

func tailOf(b []byte, n int) string {
	if len(b) > n {
		return string(b[len(b)-n:])
	}
	return string(b)
}

// tailContext classifies what an accepted input ends in (for signatures).
func tailContext(in []byte) string {
	s := string(in)
	switch {
	case strings.LastIndex(s, "/*") > strings.LastIndex(s, "*/"):
		return "open-block-comment"
	case strings.Count(s, "\"")%2 == 1:
		return "open-string"
	}
	t := strings.TrimRight(s, " \t\r\n")
	if t == "" {
		return "blank"
	}
	last := t[len(t)-1]
	switch {
	case last >= 0x80:
		return "non-ascii"
	case last == '}' || last == ';':
		return "after-definition"
	case last == '/' || last == '-' || last == '.' || last == 'x' || last == 'e':
		return "partial-token"
	case (last >= 'a' && last <= 'z') || (last >= 'A' && last <= 'Z') || (last >= '0' && last <= '9'):
		return "word"
	}
	return "punct"
}

// tokenContext classifies where in the input a reader fault landed.
func tokenContext(in []byte, at int) string {
	if at > len(in) {
		at = len(in)
	}
	depth := 0
	for _, b := range in[:at] {
		if b == '{' {
			depth++
		} else if b == '}' {
			depth--
		}
	}
	if depth > 0 {
		return "inside-definition"
	}
	return "between-definitions"
}

var _ = prng.New

var reTok = regexp.MustCompile(`[A-Za-z_][A-Za-z0-9_]*|0x[0-9a-fA-F]+|-?[0-9]+(\.[0-9]+)?|"[^"\n]*"|//[^\n]*|/\*[^*]*\*/|->|<<|>>|\s+|.`)

// mutateTokens splits text into lexical pieces and deletes, duplicates, swaps or replaces one
// non-blank piece: the malformed inputs a real edit produces (a dangling operator, a
// missing bracket, a doubled keyword).
func mutateTokens(r *prng.Rand, text string) string {
	toks := reTok.FindAllString(text, -1)
	var idx []int
	for i, t := range toks {
		if strings.TrimSpace(t) != "" {
			idx = append(idx, i)
		}
	}
	if len(idx) == 0 {
		return text
	}
	k := idx[r.Intn(len(idx))]
	if r.Chance(1, 2) {
		// bias towards the interesting places: operators, brackets, attribute parts
		for try := 0; try < 8; try++ {
			j := idx[r.Intn(len(idx))]
			if strings.ContainsAny(toks[j], "|&<>()[]{};=,:") || toks[j] == "flags" || toks[j] == "opcode" || toks[j] == "deprecated" {
				k = j
				break
			}
		}
	}
	switch r.Intn(4) {
	case 0:
		toks[k] = ""
	case 1:
		toks[k] = toks[k] + " " + toks[k]
	case 2:
		j := idx[r.Intn(len(idx))]
		toks[k], toks[j] = toks[j], toks[k]
	default:
		toks[k] = tokenVocab[r.Intn(len(tokenVocab))]
	}
	return strings.Join(toks, "")
}
