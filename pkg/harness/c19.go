package harness

import (
	"bytes"
	"fmt"
	"os"
	"os/exec"
	"path/filepath"
	"reflect"
	"sort"
	"strings"
	"sync/atomic"
	"syscall"
	"time"

	"github.com/200sc/bebop"

	"verif/pkg/schema"
)

// C19: the command-line tools never damage files they cannot process. The real main
// packages run as OS processes in a private workspace; every os call they make goes
// through verif/simos, which fails, tears or crashes the process at a chosen operation.

func init() {
	props["C19"] = runC19
	execs["cli"] = execCLI
}

type cliRun struct {
	Exit     int  // exit code, -1 if killed by a signal
	Signaled bool // process died from a signal (crash injection)
	Stdout   string
	Stderr   string
	Ops      []cliOp
	After    map[string][]byte // workspace content after the run (seen through symbolic links)
	Before   map[string][]byte // the same view of the pre-existing files before the run
	Real     map[string]string // pre-existing name -> the file it really was before the run (links resolved)
	Fired    bool
	Hung     bool // still running after cliTimeout; killed by the harness
}

type cliOp struct {
	Index int
	Op    string
	Path  string
	Size  int
}

func cliDir() string { return os.Getenv("VERIF_CLI_DIR") }

const cliTimeout = 60 * time.Second

// runCLI materialises the workspace, runs the tool once and collects everything.
func runCLI(sc *Scenario, plan string) (*cliRun, error) {
	dir, err := os.MkdirTemp("", "verif-c19-")
	if err != nil {
		return nil, err
	}
	defer os.RemoveAll(dir)
	ws := filepath.Join(dir, "ws")
	os.MkdirAll(ws, 0o755)
	var names []string
	for n := range sc.Files {
		names = append(names, n)
	}
	sort.Strings(names)
	for _, n := range names {
		p := filepath.Join(ws, n)
		os.MkdirAll(filepath.Dir(p), 0o755)
		if to, ok := strings.CutPrefix(sc.Files[n], symlinkMark); ok {
			if err := os.Symlink(to, p); err != nil {
				return nil, err
			}
			continue
		}
		if err := os.WriteFile(p, []byte(sc.Files[n]), 0o644); err != nil {
			return nil, err
		}
	}
	before := map[string][]byte{}
	realOf := map[string]string{}
	for _, n := range names {
		if b, err := os.ReadFile(filepath.Join(ws, n)); err == nil {
			before[n] = b
		}
		if rp, err := filepath.EvalSymlinks(filepath.Join(ws, n)); err == nil {
			realOf[n] = rp
		}
	}
	oplog := filepath.Join(dir, "oplog")
	cmd := exec.Command(filepath.Join(cliDir(), sc.Extra["tool"]), sc.Args...)
	cmd.Dir = ws
	cmd.Env = []string{"VERIF_OPLOG=" + oplog, "VERIF_FAULTPLAN=" + plan, "HOME=" + dir, "TMPDIR=" + dir}
	var so, se bytes.Buffer
	cmd.Stdout, cmd.Stderr = &so, &se
	// the tools finish in milliseconds; one that is still running after cliTimeout is stuck
	var hung atomic.Bool
	if err := cmd.Start(); err != nil {
		return nil, fmt.Errorf("cannot run %s: %w", sc.Extra["tool"], err)
	}
	timer := time.AfterFunc(cliTimeout, func() { hung.Store(true); cmd.Process.Kill() })
	err = cmd.Wait()
	timer.Stop()
	res := &cliRun{Stdout: so.String(), Stderr: se.String(), After: map[string][]byte{}, Before: before, Real: realOf, Hung: hung.Load()}
	if err != nil {
		ee, ok := err.(*exec.ExitError)
		if !ok {
			return nil, fmt.Errorf("cannot run %s: %w", sc.Extra["tool"], err)
		}
		res.Exit = ee.ExitCode()
		if st, ok := ee.Sys().(syscall.WaitStatus); ok && st.Signaled() {
			res.Signaled = true
			res.Exit = -1
		}
	}
	if b, err := os.ReadFile(oplog); err == nil {
		for _, ln := range strings.Split(strings.TrimSpace(string(b)), "\n") {
			f := strings.Split(ln, "\t")
			if len(f) < 4 {
				continue
			}
			var op cliOp
			fmt.Sscan(f[0], &op.Index)
			fmt.Sscan(f[3], &op.Size)
			op.Op = f[1]
			op.Path = strings.TrimPrefix(strings.TrimPrefix(f[2], ws), "/")
			res.Ops = append(res.Ops, op)
		}
	}
	filepath.Walk(ws, func(p string, info os.FileInfo, err error) error {
		if err == nil && info.Mode().IsRegular() {
			rel, _ := filepath.Rel(ws, p)
			b, _ := os.ReadFile(p)
			res.After[rel] = b
		}
		return nil
	})
	// pre-existing names that are (or were) symbolic links: what is read through them now
	for _, n := range names {
		if _, ok := res.After[n]; !ok {
			if b, err := os.ReadFile(filepath.Join(ws, n)); err == nil {
				res.After[n] = b
			}
		}
	}
	return res, nil
}

// schemaHash fingerprints a parsed File ignoring doc comments (and the tags derived
// from them).
func schemaHash(f bebop.File) uint64 {
	var walk func(h uint64, v reflect.Value, depth int) uint64
	fp := &fper{seen: map[uintptr]bool{}}
	walk = func(h uint64, v reflect.Value, depth int) uint64 {
		switch v.Kind() {
		case reflect.Struct:
			for i := 0; i < v.NumField(); i++ {
				n := v.Type().Field(i).Name
				if n == "Comment" || n == "Tags" || n == "FileName" {
					continue
				}
				h = walk(h, v.Field(i), depth+1)
			}
			return h
		case reflect.Slice:
			h = hashU(h, uint64(v.Len())+0x51)
			for i := 0; i < v.Len(); i++ {
				h = walk(h, v.Index(i), depth+1)
			}
			return h
		case reflect.Map:
			var sum uint64
			it := v.MapRange()
			for it.Next() {
				e := walk(0xcbf29ce484222325, it.Key(), depth+1)
				e = walk(e, it.Value(), depth+1)
				sum += e
			}
			return hashU(hashU(h, uint64(v.Len())), sum)
		case reflect.Ptr:
			if v.IsNil() {
				return hashU(h, 0x70)
			}
			return walk(hashU(h, 0x72), v.Elem(), depth+1)
		}
		return fp.hashValue(h, v, depth)
	}
	return walk(0xcbf29ce484222325, reflect.ValueOf(f), 0)
}

func parsesTo(b []byte) (uint64, error) {
	f, _, err := bebop.ReadFile(bytes.NewReader(b))
	if err != nil {
		return 0, err
	}
	return schemaHash(f), nil
}

var goodFlags = [][]string{{}, {"-generate-unsafe"}, {"-private-definitions"}, {"-force-pointer-receivers", "-share-string-memory"}, {"-generate-tags"}, {"-combined-imports"}}

// symlinkMark starts the "content" of a workspace entry that is a symbolic link; the link's
// destination follows.
const symlinkMark = "\x00symlink->"

var constructSnippets = []string{
	"[flags]\nenum F { A = 1; B = 2; C = A | B; }\n",
	"[flags]\nenum F : uint8 { A = 1; B = 1 << 3; }\n",
	"enum Plain { A = 1; }\n[flags]\nenum F1 { X = 1; }\n[flags]\nenum F2 { Y = 2; Z = X2; }\n",
	"enum E : uint8 { A = 1; B = 2; }\nenum W : int64 { Lo = -9223372036854775808; }\n",
	"struct G { int32[][] grid; byte[][][] cube; array[array[string]] names; }\n",
	"message M { 1 -> map[string, int32[]] m; 2 -> map[guid, map[uint8, date]] mm; }\n",
	"readonly struct R { guid id; }\n[opcode(\"ABCD\")]\nstruct O { int32 a; }\n[opcode(0x12345678)]\nmessage P { 1 -> bool b; }\n",
	"struct D {\n    [deprecated(\"gone\")]\n    int32 old;\n    int32 now;\n}\n",
	"const float64 kInf = -inf;\nconst string kQ = \"a\\\"b\";\nconst uint64 kBig = 18446744073709551615;\nstruct AfterConsts { byte b; }\n",
	"struct A { int32 a; } struct B { int32 b; }\n",
	"/* leading block */\nstruct C1 { /* inline */ int32 a; // trailing\n}\n",
	"union U { 1 -> struct UA { int32 a; } 2 -> message UB { 1 -> string s; } }\n",
	"struct Empty {}\nmessage EmptyM {}\nunion EmptyU {}\n",
	// literals the parser only WARNS about
	"const int16 kTooBig = 33333333333333333333333333333333333333333333333333333333333333333;\nstruct AfterWarning { int32 a; }\n",
	"const float32 kHuge = 1.7976931348623159e308;\nconst uint16 kAlso = 2222222222222222222222222222222222222222222222222222222222222222;\nmessage AfterWarnings { 1 -> string s; }\n",
}

const oldOutput = "// previously generated; must survive a failed run\npackage old\n"

func runC19(c *Ctx) *Replay {
	r := c.R
	ps := c.N.Batch.Programs
	if len(ps) == 0 || cliDir() == "" {
		c.Count("no_cli", 1)
		return nil
	}
	p := ps[r.Intn(len(ps))]
	crlf := r.Chance(1, 3)
	valid := p.Schema.PrintLayout(schema.Layout{Indent: "    ", OneLine: r.Chance(1, 4), CRLF: crlf, Comments: r.Bool(), Block: r.Bool(),
		Trailing: []int{0, 0, 1, 2}[r.Intn(4)]})
	if r.Chance(1, 4) {
		// a string literal that spans lines: its line break is part of the value
		eol := "\n"
		if crlf {
			eol = "\r\n"
		}
		valid += "const string kSpansLines = \"first" + eol + "second" + eol + "\";" + eol
	}
	if r.Chance(1, 4) {
		// no newline at the end of the file; half of the time the last line is a complete
		// definition of its own
		eol := "\n"
		if crlf {
			eol = "\r\n"
		}
		valid = strings.TrimRight(valid, "\r\n")
		if r.Bool() {
			valid += eol + []string{"struct LastLine { int32 a; }", "const int32 kLastLine = 7;", "enum LastEnum { A = 1; }", "// a closing remark"}[r.Intn(4)]
		}
	}
	sc := Scenario{Kind: "cli", Prog: p.ID, Files: map[string]string{}, Extra: map[string]string{}}
	class := []string{"valid", "valid", "syntax-error", "validation-error", "import", "import-missing", "import-paths", "symlinks", "degenerate"}[r.Intn(9)]
	if r.Chance(1, 24) {
		class = "large"
	} else if r.Chance(1, 8) {
		class = "constructs"
	}
	// the first runs of a batch enumerate the construct snippets: each one through
	// `bebopfmt -w <file>`, bare and behind a struct, and through bebopc-go
	forced := -1
	if c.Run < 3*len(constructSnippets) {
		class, forced = "constructs", c.Run
	}
	text := valid
	pre := "" // directory of the files the tool is pointed at
	switch class {
	case "constructs":
		// small files built around ONE language construct each (attributes, typed enums,
		// nested arrays, odd literals, two definitions on a line), alone or behind a struct:
		// whatever the formatter makes of them, a successful -w must keep what they mean
		text = constructSnippets[r.Intn(len(constructSnippets))]
		lead, trail := r.Bool(), r.Chance(1, 3)
		if forced >= 0 {
			text = constructSnippets[forced%len(constructSnippets)]
			lead, trail = forced/len(constructSnippets) == 1, false
		}
		if lead {
			text = "struct Lead { int32 a; string b; }\n" + text
		}
		if trail {
			text += "message Trail { 1 -> int32 x; }\n"
		}
	case "large":
		// a LARGE schema file: remarks bring it to about 64 KiB, 1 MiB or 2 MiB, and
		// definitions follow BEHIND the padding (whatever a tool does with the first so many
		// bytes of a file, the rest is part of the schema too)
		n := []int{1 << 16, 1 << 20, 1 << 20, 1 << 21}[r.Intn(4)] + r.Range(-70, 70)
		text = padSchema(valid, n) + "struct AfterThePadding { int32 a; }\n// and a closing remark\nmessage LastOfAll { 1 -> string s; }\n"
	case "degenerate":
		// files with nothing (or next to nothing) in them, a byte-order mark, NUL bytes
		text = []string{"", "\n", "// only a remark\n", "/* only a block remark */", "   \n\t\n", "\xef\xbb\xbf" + valid, "\r\n", "const int32 kOnly = 1;", valid + "\x00", "//"}[r.Intn(10)]
	case "syntax-error":
		text = valid + "\nstruct Broken { int32 ; }\n"
	case "validation-error":
		text = valid + "\nstruct UsesGhost { GhostType g; }\n"
	case "import":
		text = "import \"impx.bop\"\n" + valid
	case "import-missing":
		text = "import \"nowhere.bop\"\n" + valid
	case "import-paths":
		// two different files whose import paths differ only in their leading dots and
		// slashes, spelled in several ways
		pre = "w/"
		text = "import \"../impx.bop\"\nimport \"./impx.bop\"\n" + valid
		if r.Bool() {
			text = "import \"./impx.bop\"\nimport \"../impx.bop\"\n" + valid
		}
	}
	sc.Extra["class"] = class
	textDir := pre
	if class == "symlinks" {
		// the schema (and bebopc-go's output) is reached through one or two relative symbolic
		// links that cross directories; files with the same base names sit next to every hop
		// (bystanders: whatever happens, they are none of the tool's business)
		if r.Chance(1, 4) {
			text = valid + "\nstruct Broken { int32 ; }\n"
		}
		hops := r.Range(1, 2)
		sc.Files["shared/v2.bop"] = text
		sc.Files["api/v2.bop"] = "struct Bystander { int32 a; }\n"
		sc.Files["v2.bop"] = "message RootBystander { 1 -> string s; }\n"
		if hops == 2 {
			sc.Files["shared/current.bop"] = symlinkMark + "v2.bop"
			sc.Files["api/schema.bop"] = symlinkMark + "../shared/current.bop"
			sc.Files["api/current.bop"] = "struct AlsoBystander { byte b; }\n"
		} else {
			sc.Files["api/schema.bop"] = symlinkMark + "../shared/v2.bop"
		}
		if r.Bool() {
			sc.Extra["tool"] = "bebopc-go"
			sc.Files["store/real.go"] = oldOutput
			sc.Files["gen/real.go"] = "// a bystander\npackage gen\n"
			if hops == 2 {
				sc.Files["store/current.go"] = symlinkMark + "real.go"
				sc.Files["gen/out.go"] = symlinkMark + "../store/current.go"
				sc.Files["gen/current.go"] = "// another bystander\npackage gen\n"
			} else {
				sc.Files["gen/out.go"] = symlinkMark + "../store/real.go"
			}
			out := "gen/out.go"
			if r.Chance(1, 3) {
				out = "plain.go" // only the input is behind links
				sc.Files[out] = oldOutput
			}
			sc.Args = append([]string{"-i", "api/schema.bop", "-o", out, "-package", "simpkg"}, goodFlags[r.Intn(len(goodFlags))]...)
			sc.Extra["targets"] = out
		} else {
			sc.Extra["tool"] = "bebopfmt"
			if r.Bool() {
				sc.Args = []string{"-w", "api/schema.bop"}
				sc.Extra["targets"] = "api/schema.bop"
			} else {
				sc.Args = []string{"-w", "api"}
				sc.Extra["targets"] = "api/schema.bop,api/v2.bop"
				if hops == 2 {
					sc.Extra["targets"] += ",api/current.bop"
				}
			}
		}
	} else if (forced < 0 && r.Bool()) || forced/len(constructSnippets) == 2 {
		sc.Extra["tool"] = "bebopc-go"
		sc.Files[pre+"in.bop"] = text
		sc.Files[pre+"out.go"] = oldOutput
		sc.Args = append([]string{"-i", pre + "in.bop", "-o", pre + "out.go", "-package", "simpkg"}, goodFlags[r.Intn(len(goodFlags))]...)
		sc.Extra["targets"] = pre + "out.go"
		switch r.Intn(8) {
		case 0: // the output directory does not exist
			sc.Args[3] = "nodir/out.go"
		case 1: // the output is the input: a failed run must still leave the schema alone
			sc.Args[3] = pre + "in.bop"
			delete(sc.Files, pre+"out.go")
			sc.Extra["targets"] = pre + "in.bop"
		case 2: // no pre-existing output at all
			delete(sc.Files, pre+"out.go")
		}
	} else {
		sc.Extra["tool"] = "bebopfmt"
		mode := r.Intn(3)
		if forced >= 0 {
			mode = 0
		}
		switch mode {
		case 0:
			sc.Files[pre+"a.bop"] = text
			sc.Args = []string{"-w", pre + "a.bop"}
			sc.Extra["targets"] = pre + "a.bop"
		case 1:
			sc.Files[pre+"d/a.bop"] = valid
			sc.Files[pre+"d/b.bop"] = text
			sc.Files[pre+"d/c.bop"] = "struct Plain { int32 a; }\n"
			sc.Args = []string{"-w", pre + "d"}
			sc.Extra["targets"] = pre + "d/a.bop," + pre + "d/b.bop," + pre + "d/c.bop"
			textDir = pre + "d/"
		default:
			sc.Files[pre+"a.bop"] = text
			sc.Files[pre+"b.bop"] = "message Other { 1 -> string s; }\n"
			sc.Args = []string{"-w", pre + "a.bop", pre + "b.bop"}
			sc.Extra["targets"] = pre + "a.bop," + pre + "b.bop"
		}
		if r.Chance(1, 5) && forced < 0 {
			// stdout mode: nothing may be rewritten at all
			sc.Args = sc.Args[1:]
			sc.Extra["stdout_mode"] = "1"
		}
	}
	if class != "symlinks" && class != "large" && r.Chance(1, 3) {
		// files whose NAMES derive from a target's (editor backups, leftovers of other tools):
		// whatever scratch names a tool uses next to its target, these are somebody's files
		var ts []string
		for _, t := range strings.Split(sc.Extra["targets"], ",") {
			if t != "" {
				ts = append(ts, t)
			}
		}
		sort.Strings(ts)
		if len(ts) > 0 {
			t := ts[r.Intn(len(ts))]
			dir, base := filepath.Split(t)
			for i, n := 0, r.Range(1, 3); i < n; i++ {
				name := dir + []string{base + "~", base + ".tmp", base + ".bak", base + ".orig", base + ".new", "." + base + ".swp", ".#" + base, base + ".lock", "." + base + ".tmp", base + "~~"}[r.Intn(10)]
				if _, taken := sc.Files[name]; !taken {
					sc.Files[name] = []string{"struct KeptAside { int32 a; string note; }\n", "message OldDraft { 1 -> string s; }\n// my notes\n", oldOutput}[r.Intn(3)]
					if strings.HasSuffix(filepath.Dir(name+"x"), "d") && sc.Extra["tool"] == "bebopfmt" {
						sc.Extra["targets"] += "," + name // a whole directory is formatted: its entries are targets
					}
				}
			}
		}
	}
	// the imported files sit where the importing file looks for them
	switch class {
	case "import":
		sc.Files[textDir+"impx.bop"] = impText
		if r.Chance(1, 3) {
			// the imported file holds a literal the parser only warns about
			sc.Files[textDir+"impx.bop"] = impText + "const int16 kImpTooBig = 33333333333333333333333333333333333333333333333333333333333333333;\n"
		}
	case "import-paths":
		sc.Files[textDir+"impx.bop"] = impText
		sc.Files[filepath.Clean(filepath.Join(textDir, "..", "impx.bop"))] = impTextY
	}
	if (class == "import" || class == "import-paths") && sc.Extra["tool"] == "bebopfmt" && strings.HasSuffix(textDir, "d/") {
		// a whole directory is formatted: the imported file in it is a target like the others
		sc.Extra["targets"] += "," + textDir + "impx.bop"
	}
	c.Log("C19", sc.Extra["tool"], class, p.ID, clipStr(strings.ReplaceAll(text, "\n", " "), 60), sc.Args)
	// fault-free run: judged itself, and gives the operation list
	base := cloneScenario(&sc)
	viol := execCLI(c.N, &base)
	c.Count("evaluations", 1)
	c.Count("tool:"+sc.Extra["tool"], 1)
	c.Count("class:"+class, 1)
	c.State("c19", sc.Extra["tool"], class, "none", base.Extra["exit"])
	if viol != nil {
		c.Log(viol.Signature)
		if rp := c.reportPlain(&base, viol); rp != nil {
			return rp
		}
	}
	bl, err := baselineOf(&sc)
	if err != nil || bl == nil {
		c.Count("baseline_failed", 1)
		return nil
	}
	if c.Run%40 == 0 {
		var ops []string
		for _, o := range bl.Ops {
			ops = append(ops, o.Op+" "+o.Path)
		}
		c.Sample(map[string]interface{}{"tool": sc.Extra["tool"], "args": sc.Args, "input_class": class, "fault_free_exit": bl.Exit, "operations": ops})
	}
	errnoMenu := []string{"EACCES", "ENOENT", "EMFILE", "EIO"}
	// a tool that moves a large file in small pieces makes hundreds of calls: the first and
	// the last ones and a sample in between are failed (every one for ordinary runs)
	sample := func(ops []cliOp, max int) []cliOp {
		if len(ops) <= max {
			return ops
		}
		third := max / 3
		out := append([]cliOp{}, ops[:third]...)
		mid := ops[third : len(ops)-third]
		for _, k := range r.Perm(len(mid))[:max-2*third] {
			out = append(out, mid[k])
		}
		out = append(out, ops[len(ops)-third:]...)
		sort.Slice(out, func(i, j int) bool { return out[i].Index < out[j].Index })
		return out
	}
	maxFirst, maxSecond := 60, 24
	if class == "large" {
		maxFirst, maxSecond = 24, 3 // every run moves megabytes
	}
	for _, op := range sample(bl.Ops, maxFirst) {
		var kinds []FileOp
		switch op.Op {
		case "write", "writefile":
			kinds = []FileOp{{Kind: "error", Errno: []string{"ENOSPC", "EIO", "EFBIG", "EDQUOT"}[r.Intn(4)]}, {Kind: "torn", Errno: "ENOSPC", Partial: r.Intn(op.Size + 1)}, {Kind: "crash-before"}, {Kind: "crash-after"}}
		case "read":
			kinds = []FileOp{{Kind: "error", Errno: "EIO"}, {Kind: "crash-before"}}
		case "close", "sync", "fstat":
			kinds = []FileOp{{Kind: "error", Errno: "EIO"}, {Kind: "crash-after"}}
		case "exit":
			kinds = []FileOp{{Kind: "crash-before"}}
		default:
			kinds = []FileOp{{Kind: "error", Errno: errnoMenu[r.Intn(len(errnoMenu))]}, {Kind: "crash-before"}, {Kind: "crash-after"}}
		}
		for _, k := range kinds {
			fs := cloneScenario(&sc)
			k.Index = op.Index
			fs.Ops = []FileOp{k}
			viol := execCLI(c.N, &fs)
			first := lastCLIRun
			c.Count("evaluations", 1)
			c.Count("fault:"+op.Op+"-"+k.Kind, 1)
			c.State("c19", sc.Extra["tool"], class, op.Op+"-"+k.Kind, fs.Extra["exit"])
			if viol != nil {
				c.Log(op.Index, k.Kind, viol.Signature)
				if rp := c.reportPlain(&fs, viol); rp != nil {
					return rp
				}
			}
			// recovery paths: when the tool went on making os calls after a (non-crash)
			// fault, fail or crash each of those calls as well
			if first == nil || strings.HasPrefix(k.Kind, "crash") {
				continue
			}
			var later []cliOp
			for _, op2 := range first.Ops {
				if op2.Index > op.Index && op2.Op != "exit" {
					later = append(later, op2)
				}
			}
			for _, op2 := range sample(later, maxSecond) {
				var kinds2 []FileOp
				switch op2.Op {
				case "write", "writefile":
					kinds2 = []FileOp{{Kind: "error", Errno: "ENOSPC"}, {Kind: "torn", Errno: "EIO", Partial: r.Intn(op2.Size + 1)}, {Kind: "crash-after"}}
				default:
					kinds2 = []FileOp{{Kind: "error", Errno: "EIO"}, {Kind: "crash-after"}}
				}
				for _, k2 := range kinds2 {
					ds := cloneScenario(&sc)
					k2.Index = op2.Index
					ds.Ops = []FileOp{k, k2}
					viol := execCLI(c.N, &ds)
					c.Count("evaluations", 1)
					c.Count("fault2:"+op.Op+"-"+k.Kind+"+"+op2.Op+"-"+k2.Kind, 1)
					c.State("c19", sc.Extra["tool"], class, op.Op+"-"+k.Kind+"+"+op2.Op+"-"+k2.Kind, ds.Extra["exit"])
					if viol != nil {
						c.Log(op.Index, op2.Index, viol.Signature)
						if rp := c.reportPlain(&ds, viol); rp != nil {
							return rp
						}
					}
				}
			}
		}
	}
	return nil
}

// reportPlain reports a violation whose scenario is already minimal in structure (one
// fault); known findings are matched, duplicates dropped.
func (c *Ctx) reportPlain(sc *Scenario, v *Violation) *Replay {
	rp, _ := c.gate(sc, v, nil)
	return rp
}

var baselineCache = map[string]*cliRun{}

func baselineOf(sc *Scenario) (*cliRun, error) {
	key := fmt.Sprint(sc.Extra["tool"], sc.Args, sc.Files)
	if b, ok := baselineCache[key]; ok {
		return b, nil
	}
	if len(baselineCache) > 64 {
		baselineCache = map[string]*cliRun{}
	}
	b, err := runCLI(sc, "")
	if err == nil {
		baselineCache[key] = b
	}
	return b, err
}

func opRole(bl *cliRun, idx int, targets map[string]bool) string {
	for _, o := range bl.Ops {
		if o.Index == idx {
			role := o.Op
			if targets[o.Path] {
				role += "-target"
			} else if strings.HasSuffix(o.Path, ".bop") || strings.HasSuffix(o.Path, "d") {
				role += "-input"
			}
			return role
		}
	}
	return "?"
}

// lastCLIRun is the process run of the most recent execCLI call (nil for baseline-only).
var lastCLIRun *cliRun

func execCLI(n *Node, sc *Scenario) *Violation {
	lastCLIRun = nil
	if sc.Extra == nil {
		sc.Extra = map[string]string{}
	}
	if cliDir() == "" {
		sc.Extra["skipped"] = "no-cli"
		return nil
	}
	tool := sc.Extra["tool"]
	class := sc.Extra["class"]
	targets := map[string]bool{}
	for _, t := range strings.Split(sc.Extra["targets"], ",") {
		if t != "" {
			targets[t] = true
		}
	}
	bl, err := baselineOf(sc)
	if err != nil {
		sc.Extra["skipped"] = err.Error()
		return nil
	}
	run := bl
	plan := ""
	faultKind, role := "none", "none"
	if len(sc.Ops) > 0 {
		var parts []string
		for _, o := range sc.Ops {
			parts = append(parts, fmt.Sprintf("%d:%s:%s:%d", o.Index, o.Kind, o.Errno, o.Partial))
		}
		plan = strings.Join(parts, ";")
		run, err = runCLI(sc, plan)
		if err != nil {
			sc.Extra["skipped"] = err.Error()
			return nil
		}
		lastCLIRun = run
		faultKind = sc.Ops[0].Kind
		role = opRole(bl, sc.Ops[0].Index, targets)
		if len(sc.Ops) > 1 {
			last := sc.Ops[len(sc.Ops)-1]
			faultKind = sc.Ops[0].Kind + "+" + last.Kind
			for _, o := range run.Ops {
				if o.Index == last.Index {
					role += "+" + o.Op
				}
			}
		}
	}
	sc.Extra["exit"] = fmt.Sprint(run.Exit)
	facts := map[string]string{"tool": tool, "class": class, "fault": faultKind, "role": role}
	if run.Hung {
		// the tool neither failed nor succeeded: it never came back (the property's "fails for
		// any reason ... exit status is non-zero" presupposes that it ends)
		return &Violation{Class: "hang", Signature: fmt.Sprintf("hang|%s|%s|%s|%s", tool, class, faultKind, role),
			Detail: fmt.Sprintf("%s %s was still running %v after start (fault %s at %s) and was killed by the harness", tool, strings.Join(sc.Args, " "), cliTimeout, faultKind, role),
			Facts:  facts}
	}
	failed := run.Exit != 0
	crashRun := run.Signaled
	// (1) a failed or crashed run leaves every pre-existing file as it was
	if failed {
		var names []string
		for name := range sc.Files {
			names = append(names, name)
		}
		sort.Strings(names)
		for _, name := range names {
			before, had := run.Before[name]
			if !had {
				continue // a dangling link: there was nothing to keep
			}
			after, exists := run.After[name]
			same := exists && bytes.Equal(after, before)
			if !same && crashRun && bl.Exit == 0 && exists && bytes.Equal(after, bl.After[name]) {
				same = true // the replacement had completed atomically before the crash
			}
			if !same && targets[name] && tool == "bebopfmt" && exists {
				// a file the tool had finished rewriting before it failed or crashed (an
				// earlier file of a multi-file run, or a rename that completed) is judged like
				// a successful rewrite: it must still denote the same schema
				if h1, e1 := parsesTo(before); e1 == nil {
					h2, e2 := parsesTo(after)
					if e2 == nil && h1 == h2 {
						same = true
					} else if e2 == nil {
						return &Violation{Class: "file-damaged", Signature: fmt.Sprintf("rewrite-changes-schema|%s|%s", tool, faultKind),
							Detail: fmt.Sprintf("bebopfmt -w rewrote %s into a different schema (the run then failed elsewhere)", name),
							Facts:  mergeFacts(facts, map[string]string{"construct": constructsOf(string(before))})}
					}
				}
			}
			if !same {
				state := "truncated or partial"
				if !exists {
					state = "missing"
				} else if len(after) == 0 {
					state = "empty"
				}
				how := "reported failure (exit " + fmt.Sprint(run.Exit) + ")"
				if run.Signaled {
					how = "crashed"
				}
				return &Violation{Class: "file-damaged", Signature: fmt.Sprintf("file-damaged|%s|%s|%s|%s", tool, class, faultKind, role),
					Detail: fmt.Sprintf("%s %s: %s but %s is %s afterwards (%d bytes before, %d after); fault %s at %s", tool, strings.Join(sc.Args, " "), how, name, state, len(before), len(after), faultKind, role),
					Facts:  facts}
			}
		}
	}
	// without -w bebopfmt must not touch any file, whatever happens
	if sc.Extra["stdout_mode"] == "1" {
		for name, before := range run.Before {
			if after, ok := run.After[name]; !ok || !bytes.Equal(after, before) {
				return &Violation{Class: "file-damaged", Signature: "file-damaged|bebopfmt|stdout-mode|" + faultKind,
					Detail: fmt.Sprintf("bebopfmt without -w changed %s", name), Facts: facts}
			}
		}
	}
	// (2) exit status and reported errors agree
	if !run.Signaled && sc.Extra["stdout_mode"] != "1" {
		out := strings.TrimSpace(run.Stdout)
		var errLines []string
		for _, ln := range strings.Split(run.Stderr, "\n") {
			if t := strings.TrimSpace(ln); t != "" && !strings.HasPrefix(t, "warning:") {
				errLines = append(errLines, t)
			}
		}
		if run.Exit == 0 && (out != "" || len(errLines) > 0) {
			return &Violation{Class: "exit-status", Signature: fmt.Sprintf("exit-status|%s|zero-with-error|%s", tool, faultKind),
				Detail: fmt.Sprintf("%s exited 0 but reported: %s %s", tool, clipStr(out, 200), clipStr(strings.Join(errLines, " / "), 200)), Facts: facts}
		}
		if run.Exit != 0 && out == "" && len(errLines) == 0 {
			return &Violation{Class: "exit-status", Signature: fmt.Sprintf("exit-status|%s|nonzero-silent|%s", tool, faultKind),
				Detail: fmt.Sprintf("%s exited %d without reporting an error", tool, run.Exit), Facts: facts}
		}
	}
	if !run.Signaled && sc.Extra["stdout_mode"] == "1" {
		if run.Exit != 0 && strings.TrimSpace(run.Stdout+run.Stderr) == "" {
			return &Violation{Class: "exit-status", Signature: "exit-status|bebopfmt|nonzero-silent|stdout-mode", Detail: "bebopfmt exited non-zero without reporting an error", Facts: facts}
		}
		if run.Exit == 0 && bl.Exit != 0 && len(sc.Ops) == 0 {
			return &Violation{Class: "exit-status", Signature: "exit-status|bebopfmt|zero-on-invalid|stdout-mode", Detail: "bebopfmt exited 0 on input it cannot process", Facts: facts}
		}
	}
	// (3) success means the work was done correctly
	if run.Exit == 0 && !run.Signaled {
		if tool == "bebopc-go" && bl.Exit == 0 {
			for t := range targets {
				if !bytes.Equal(run.After[t], bl.After[t]) {
					return &Violation{Class: "file-damaged", Signature: fmt.Sprintf("wrong-output|%s|%s|%s", tool, faultKind, role),
						Detail: fmt.Sprintf("%s exited 0 under fault %s at %s but %s differs from the fault-free output (%d vs %d bytes)", tool, faultKind, role, t, len(run.After[t]), len(bl.After[t])), Facts: facts}
				}
			}
		}
		if tool == "bebopc-go" && sc.Files["out.go"] != "" && targets["out.go"] && bytes.Equal(run.After["out.go"], []byte(oldOutput)) {
			return &Violation{Class: "exit-status", Signature: fmt.Sprintf("no-output|%s|%s|%s", tool, faultKind, role),
				Detail: "bebopc-go exited 0 but did not write the output file", Facts: facts}
		}
		if tool == "bebopc-go" {
			// a successful run changes its output file and nothing else
			var ns []string
			for name := range run.Before {
				ns = append(ns, name)
			}
			sort.Strings(ns)
			onChain := map[string]bool{} // the files a target name leads to are the target too
			for t := range targets {
				if rp := run.Real[t]; rp != "" {
					onChain[rp] = true
				}
			}
			for _, name := range ns {
				if !targets[name] && !onChain[run.Real[name]] && !bytes.Equal(run.After[name], run.Before[name]) {
					return &Violation{Class: "file-damaged", Signature: fmt.Sprintf("bystander-changed|%s|%s", tool, faultKind),
						Detail: fmt.Sprintf("%s exited 0 and changed %s, which is neither its input nor its output", tool, name), Facts: facts}
				}
			}
		}
		if tool == "bebopfmt" {
			// EVERY pre-existing file that reads differently now (whether or not the harness
			// expected the tool to touch it) must still denote the schema it denoted before
			var ts []string
			for t := range run.Before {
				ts = append(ts, t)
			}
			sort.Strings(ts)
			for _, t := range ts {
				before, after := run.Before[t], run.After[t]
				if bytes.Equal(before, after) {
					continue
				}
				h1, e1 := parsesTo(before)
				if e1 != nil {
					continue // was not a valid schema before; the tool should have failed, judged by (1)
				}
				h2, e2 := parsesTo(after)
				if e2 != nil {
					return &Violation{Class: "file-damaged", Signature: fmt.Sprintf("rewrite-unparseable|%s|%s", tool, faultKind),
						Detail: fmt.Sprintf("bebopfmt -w exited 0 but %s no longer parses: %v", t, clipStr(e2.Error(), 160)),
						Facts:  mergeFacts(facts, map[string]string{"construct": constructsOf(string(before))})}
				}
				if h1 != h2 {
					return &Violation{Class: "file-damaged", Signature: fmt.Sprintf("rewrite-changes-schema|%s|%s", tool, faultKind),
						Detail: fmt.Sprintf("bebopfmt -w exited 0 but %s now denotes a different schema", t),
						Facts:  mergeFacts(facts, map[string]string{"construct": constructsOf(string(before))})}
				}
			}
		}
	}
	return nil
}

func mergeFacts(a, b map[string]string) map[string]string {
	out := map[string]string{}
	for k, v := range a {
		out[k] = v
	}
	for k, v := range b {
		out[k] = v
	}
	return out
}

// constructsOf names the schema constructs in a text that the formatter is known to be
// sensitive to (used to key known findings narrowly).
func constructsOf(text string) string {
	var cs []string
	if strings.Contains(text, "enum ") && strings.Contains(text, " : ") {
		cs = append(cs, "typed-enum")
	}
	if strings.Contains(text, "[flags]") {
		cs = append(cs, "flags")
	}
	if strings.Contains(text, "[][]") || strings.Contains(text, "]]") {
		cs = append(cs, "nested-container")
	}
	if strings.Contains(text, "import ") {
		cs = append(cs, "import")
	}
	if strings.Contains(text, "[deprecated(") {
		cs = append(cs, "deprecated")
	}
	if strings.Contains(text, "[opcode(") {
		cs = append(cs, "opcode")
	}
	if strings.Contains(text, "readonly ") {
		cs = append(cs, "readonly")
	}
	if strings.Contains(text, "union ") {
		cs = append(cs, "union")
	}
	if strings.Contains(text, "map[") {
		cs = append(cs, "map")
	}
	if len(cs) == 0 {
		return "plain"
	}
	return strings.Join(cs, "+")
}
