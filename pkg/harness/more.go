package harness

import (
	"bytes"
	"fmt"
	"reflect"
	"verif/simrt"

	"verif/pkg/prng"
	"verif/pkg/refcodec"
	"verif/pkg/reg"
	"verif/pkg/schema"
	"verif/pkg/simnet"
	"verif/pkg/val"
)

// ---------------------------------------------------------------------------------
// C07: arbitrary bytes never panic or run away (link corruption faults)

func init() {
	props["C07"] = runC07
	execs["corrupt"] = execCorrupt
}

// inflated counts are either clearly inside the budgets (<= 2^12) or far outside (>= 2^24)
var bigCounts = []uint32{0, 1, 1 << 12, 1 << 24, 1 << 28, 1<<31 - 1, 1 << 31, 1<<32 - 1}

func putU32(b []byte, at int, v uint32) {
	b[at], b[at+1], b[at+2], b[at+3] = byte(v), byte(v>>8), byte(v>>16), byte(v>>24)
}

func getU32(b []byte, at int) uint32 {
	return uint32(b[at]) | uint32(b[at+1])<<8 | uint32(b[at+2])<<16 | uint32(b[at+3])<<24
}

// mutate applies one structure-aware corruption to a valid encoding.
func mutate(r *prng.Rand, data []byte, spans []refcodec.Span, foreign []byte) ([]byte, string) {
	out := append([]byte(nil), data...)
	pickSpan := func(kinds ...string) *refcodec.Span {
		var cand []int
		for i, sp := range spans {
			for _, k := range kinds {
				if sp.Kind == k {
					cand = append(cand, i)
				}
			}
		}
		if len(cand) == 0 {
			return nil
		}
		return &spans[cand[r.Intn(len(cand))]]
	}
	for try := 0; try < 8; try++ {
		switch r.Intn(15) {
		case 14: // lies that agree with each other: a count (or string length) announces much
			// more than is there AND every length prefix of the records around it announces
			// enough room for it, so that no "does it fit in what the enclosing record says"
			// test can tell; what follows the count is kept, cut short, or absent
			cs := pickSpan(refcodec.SCount, refcodec.SStrLen)
			if cs == nil {
				continue
			}
			big := []uint32{1 << 12, 1 << 16, 1 << 20, 1 << 22, 1 << 24, 1 << 26}[r.Intn(6)]
			room := []uint32{1 << 28, 1 << 30, 1<<31 - 1, 1<<32 - 1}[r.Intn(4)]
			if r.Bool() {
				room = big*uint32(r.Range(1, 40)) + uint32(r.Intn(64))
			}
			n := 0
			for _, sp := range spans {
				if sp.Kind != refcodec.SBodyLen && sp.Kind != refcodec.SUnionLen {
					continue
				}
				old := getU32(out, sp.Start)
				extra := 0
				if sp.Kind == refcodec.SUnionLen {
					extra = 1
				}
				if sp.Start+4 <= cs.Start && cs.Start < sp.Start+4+extra+int(old) {
					putU32(out, sp.Start, room)
					n++
				}
			}
			putU32(out, cs.Start, big)
			switch r.Intn(3) {
			case 0:
				out = out[:cs.Start+4]
			case 1:
				if rest := len(out) - cs.Start - 4; rest > 0 {
					out = out[:cs.Start+4+r.Intn(rest)]
				}
			}
			return out, fmt.Sprintf("lies-agree:%s@%d:%d/%d:%d", cs.Kind, cs.Start, big, room, n)
		case 13: // EVERY length prefix of a message or union collapses to (next to) nothing:
			// records that claim to be empty but are followed by what was their content
			n := 0
			small := uint32(r.Intn(3))
			for _, sp := range spans {
				if sp.Kind == refcodec.SBodyLen || sp.Kind == refcodec.SUnionLen {
					v := small
					if r.Chance(1, 4) {
						v = uint32(r.Intn(9))
					}
					out[sp.Start], out[sp.Start+1], out[sp.Start+2], out[sp.Start+3] = byte(v), 0, 0, 0
					n++
				}
			}
			if n == 0 {
				continue
			}
			return out, fmt.Sprintf("lengths-collapse:%d", n)
		case 12: // a scalar becomes a special bit pattern: NaN (quiet, signalling, negative), infinities, -0, all ones
			var cand []int
			for i, sp := range spans {
				if sp.Kind == refcodec.SScalar && (sp.End-sp.Start == 4 || sp.End-sp.Start == 8) {
					cand = append(cand, i)
				}
			}
			if len(cand) == 0 {
				continue
			}
			sp := spans[cand[r.Intn(len(cand))]]
			pats64 := []uint64{0x7ff8000000000001, 0x7ff0000000000001, 0xfff8000000000000, 0x7ff0000000000000, 0xfff0000000000000, 0x8000000000000000, 0xffffffffffffffff}
			pats32 := []uint32{0x7fc00001, 0x7f800001, 0xffc00000, 0x7f800000, 0xff800000, 0x80000000, 0xffffffff}
			k := r.Intn(7)
			if sp.End-sp.Start == 8 {
				for i := 0; i < 8; i++ {
					out[sp.Start+i] = byte(pats64[k] >> (8 * uint(i)))
				}
			} else {
				putU32(out, sp.Start, pats32[k])
			}
			return out, fmt.Sprintf("special@%d:%d", sp.Start, k)
		case 0, 1: // inflate / deflate a count or length prefix
			sp := pickSpan(refcodec.SCount, refcodec.SStrLen, refcodec.SBodyLen, refcodec.SUnionLen)
			if sp == nil {
				continue
			}
			old := getU32(out, sp.Start)
			var nv uint32
			switch r.Intn(6) {
			case 0:
				nv = old + 1
			case 1:
				nv = old - 1
			case 2, 3:
				// exactly what is left of the input behind this prefix, and its neighbours:
				// the values where "fits" and "does not fit" meet
				rest := uint32(len(out) - sp.Start - 4)
				nv = rest + uint32(r.Intn(5)) - 2
			default:
				nv = bigCounts[r.Intn(len(bigCounts))]
			}
			if nv == old {
				nv = old + 2
			}
			putU32(out, sp.Start, nv)
			return out, fmt.Sprintf("%s@%d:%d->%d", sp.Kind, sp.Start, old, nv)
		case 2: // index / discriminator
			sp := pickSpan(refcodec.SIndex, refcodec.SDisc, refcodec.STerm)
			if sp == nil {
				continue
			}
			nv := []byte{0, 255, byte(r.Intn(256)), out[sp.Start] + 1}[r.Intn(4)]
			old := out[sp.Start]
			out[sp.Start] = nv
			return out, fmt.Sprintf("%s@%d:%d->%d", sp.Kind, sp.Start, old, nv)
		case 3: // flip bits anywhere
			if len(out) == 0 {
				continue
			}
			n := r.Range(1, 8)
			for i := 0; i < n; i++ {
				out[r.Intn(len(out))] ^= 1 << uint(r.Intn(8))
			}
			return out, fmt.Sprintf("bitflips:%d", n)
		case 4: // overwrite a range with noise
			if len(out) == 0 {
				continue
			}
			a := r.Intn(len(out))
			n := r.Range(1, 16)
			for i := a; i < a+n && i < len(out); i++ {
				out[i] = byte(r.Uint64())
			}
			return out, fmt.Sprintf("noise@%d+%d", a, n)
		case 5: // delete a span
			if len(spans) == 0 {
				continue
			}
			sp := spans[r.Intn(len(spans))]
			out = append(out[:sp.Start], out[sp.End:]...)
			return out, fmt.Sprintf("delete:%s@%d", sp.Kind, sp.Start)
		case 6: // duplicate a span
			if len(spans) == 0 {
				continue
			}
			sp := spans[r.Intn(len(spans))]
			dup := append([]byte(nil), out[sp.Start:sp.End]...)
			out = append(out[:sp.End], append(dup, out[sp.End:]...)...)
			return out, fmt.Sprintf("dup:%s@%d", sp.Kind, sp.Start)
		case 7: // splice a foreign record
			if len(foreign) == 0 || len(out) == 0 {
				continue
			}
			a := r.Intn(len(out))
			out = append(out[:a], append(append([]byte(nil), foreign...), out[a:]...)...)
			return out, fmt.Sprintf("splice@%d+%d", a, len(foreign))
		case 8: // truncate and pad
			if len(out) < 2 {
				continue
			}
			a := r.Intn(len(out))
			pad := r.Range(0, 12)
			out = out[:a]
			fill := byte(r.Uint64())
			for i := 0; i < pad; i++ {
				out = append(out, fill)
			}
			return out, fmt.Sprintf("truncpad@%d+%d", a, pad)
		case 9: // unstructured string
			n := r.Range(0, 64)
			return r.Bytes(n), fmt.Sprintf("random:%d", n)
		case 10: // all-ones / all-zeros of some length
			n := r.Range(0, 40)
			b := make([]byte, n)
			if r.Bool() {
				for i := range b {
					b[i] = 0xff
				}
			}
			return b, fmt.Sprintf("const:%d", n)
		case 11: // swap two spans' bytes
			if len(spans) < 2 {
				continue
			}
			a, b2 := spans[r.Intn(len(spans))], spans[r.Intn(len(spans))]
			if a.End-a.Start == b2.End-b2.Start && a.Start != b2.Start {
				tmp := append([]byte(nil), out[a.Start:a.End]...)
				copy(out[a.Start:a.End], out[b2.Start:b2.End])
				copy(out[b2.Start:b2.End], tmp)
				return out, fmt.Sprintf("swap@%d,%d", a.Start, b2.Start)
			}
		}
	}
	return out, "none"
}

func mutClass(m string) string {
	for i := 0; i < len(m); i++ {
		if m[i] == '@' || m[i] == ':' {
			return m[:i]
		}
	}
	return m
}

// rawBytes draws an unstructured input: short, biased towards the small integers and the
// 0x00/0xff bytes that length prefixes and discriminators are made of.
func rawBytes(r *prng.Rand) []byte {
	n := r.Intn(41)
	b := make([]byte, n)
	for i := range b {
		switch r.Intn(4) {
		case 0:
			b[i] = 0
		case 1:
			b[i] = byte(r.Intn(6))
		case 2:
			b[i] = 0xff
		default:
			b[i] = byte(r.Intn(256))
		}
	}
	return b
}

// runC07Raw feeds unstructured bytes to the decoders of ANY record type of a program,
// also types no value of which can be built (a struct holding a union without members):
// their decoders exist and take bytes like all others.
func runC07Raw(c *Ctx) *Replay {
	n := c.N
	if len(n.Batch.Programs) == 0 {
		return nil
	}
	for try := 0; try < 32; try++ {
		p := &n.Batch.Programs[c.R.Intn(len(n.Batch.Programs))]
		bs := n.ByProg[p.ID]
		if len(bs) == 0 {
			continue
		}
		b := bs[c.R.Intn(len(bs))]
		recs := b.Schema.Records()
		if len(recs) == 0 {
			continue
		}
		d := recs[c.R.Intn(len(recs))]
		if b.Types[d.Name] == nil || b.Schema.HasZeroSizeElem(schema.Type{Named: d.Name}) {
			continue
		}
		c.Log("C07raw", b.Name(), d.Name)
		for i := 0; i < 12; i++ {
			in := rawBytes(c.R)
			for _, dec := range []string{"unmarshal", "decode", "makefrombytes"} {
				sc := Scenario{Kind: "corrupt", Prog: b.Prog.ID, Mask: b.Mask, PeerMask: -1, Type: d.Name, Input: in, Mutation: "raw", Decoder: dec}
				if dec == "decode" {
					sc.Sched = drawSchedule(c.R, len(in), nil)
					sc.Reader = readerKinds[c.R.Intn(len(readerKinds))]
				}
				viol := execCorrupt(c.N, &sc)
				c.Count("evaluations", 1)
				c.Count("fault:corrupt-raw", 1)
				c.Count("outcome:"+sc.Extra["outcome"], 1)
				if viol != nil {
					if rp := c.shrinkAndReport(&sc, viol); rp != nil {
						return rp
					}
				}
			}
		}
		return nil
	}
	return nil
}

func runC07(c *Ctx) *Replay {
	if c.R.Chance(1, 6) {
		return runC07Raw(c)
	}
	cfg := val.DefaultCfg()
	cfg.LongProb = 100
	cfg.LongLen = 400
	cfg.LadderMax = 1100 // inputs stay small so that inflated counts (>= 2^24) are far beyond the budget
	var pk *pick
	for try := 0; try < 20; try++ {
		pk = c.pickRecord(cfg)
		if pk == nil || !pk.B.Schema.HasZeroSizeElem(schema.Type{Named: pk.Type}) {
			break
		}
		pk = nil
	}
	if pk == nil {
		c.Count("no_record", 1)
		return nil
	}
	b := pk.B
	t := schema.Type{Named: pk.Type}
	v := pk.Gen.Record(pk.Type)
	data, spans := refcodec.EncodeSpans(b.Schema, t, val.Normalise(b.Schema, t, v))
	fv := pk.Gen.Record(pk.Type)
	foreign := refcodec.Encode(b.Schema, t, val.Normalise(b.Schema, t, fv))
	shape := b.Schema.DefShape(pk.Def, 0)
	c.Log("C07", b.Name(), pk.Type, len(data))
	nm := c.param("mutations", 24)
	for i := 0; i < nm; i++ {
		in, desc := mutate(c.R, data, spans, foreign)
		for _, dec := range []string{"unmarshal", "decode", "makefrombytes"} {
			if dec == "makefrombytes" && i%4 != 0 {
				continue
			}
			sc := Scenario{Kind: "corrupt", Prog: b.Prog.ID, Mask: b.Mask, PeerMask: -1, Type: pk.Type, Input: in, Mutation: desc, Decoder: dec}
			if dec == "decode" {
				sc.Sched = drawSchedule(c.R, len(in), nil)
				sc.Reader = readerKinds[c.R.Intn(len(readerKinds))]
			}
			if dec != "makefrombytes" && i%3 == 2 {
				// the receiver is not fresh: the valid encoding the corruption was made from
				// (or another value's) was decoded into it before
				sc.Prefill = data
				if c.R.Chance(1, 3) {
					sc.Prefill = foreign
				}
				c.Count("reused_receivers", 1)
			}
			viol := execCorrupt(c.N, &sc)
			c.Count("evaluations", 1)
			c.Count("fault:corrupt-"+mutClass(desc), 1)
			c.Count("outcome:"+sc.Extra["outcome"], 1)
			c.State("c07", shape, mutClass(desc), dec)
			if i == 0 && dec == "unmarshal" {
				c.Sample(map[string]interface{}{"program": b.Name(), "type": pk.Type, "shape": shape, "valid_len": len(data), "mutation": desc, "input_len": len(in)})
			}
			if viol != nil {
				c.Log(i, dec, viol.Signature)
				if rp := c.shrinkAndReport(&sc, viol); rp != nil {
					return rp
				}
			}
		}
	}
	c.Log("done")
	return nil
}

func execCorrupt(n *Node, sc *Scenario) *Violation {
	b := n.Build(sc.Prog, sc.Mask, false)
	if b == nil {
		note(sc, "skipped", "build absent")
		return nil
	}
	n.prefill = sc.Prefill
	do := n.decode(b, sc.Type, sc.Decoder, sc.Input, sc.Sched, nil, sc.Reader, len(sc.Input))
	n.prefill = nil
	if do.NoSuch {
		note(sc, "skipped", "decoder not generated")
		return nil
	}
	if v := callViolation(&do.Call, sc, b.Schema, sc.Decoder); v != nil {
		v.Facts["mutation"] = mutClass(sc.Mutation)
		v.Facts["reused_receiver"] = fmt.Sprint(sc.Prefill != nil)
		v.Facts["decoder_path"] = "bytes"
		if isStreamDecoder(sc.Decoder) {
			v.Facts["decoder_path"] = "stream"
		}
		return v
	}
	if do.Err != nil {
		note(sc, "outcome", "error")
	} else {
		note(sc, "outcome", "nil")
	}
	return nil
}

// ---------------------------------------------------------------------------------
// C04: messages stay readable across schema versions (version skew between peers)

func init() {
	props["C04"] = runC04
}

func runC04(c *Ctx) *Replay {
	cfg := val.DefaultCfg()
	cfg.FullMsg = 60
	// only programs that have an older version
	var progs []*BatchProg
	for i := range c.N.Batch.Programs {
		p := &c.N.Batch.Programs[i]
		if p.Old != nil && len(c.N.OldOf[p.ID]) > 0 && len(c.N.ByProg[p.ID]) > 0 {
			progs = append(progs, p)
		}
	}
	if len(progs) == 0 {
		c.Count("no_pair", 1)
		return nil
	}
	p := progs[c.R.Intn(len(progs))]
	sb := c.N.ByProg[p.ID][c.R.Intn(len(c.N.ByProg[p.ID]))]
	rb := c.N.OldOf[p.ID][c.R.Intn(len(c.N.OldOf[p.ID]))]
	// record types both versions have
	var cands []*schema.Def
	for _, d := range sb.Schema.Records() {
		if rb.Schema.Lookup(d.Name) != nil && sb.Types[d.Name] != nil && rb.Types[d.Name] != nil {
			cands = append(cands, d)
		}
	}
	if len(cands) == 0 {
		c.Count("no_record", 1)
		return nil
	}
	if c.R.Chance(1, 10) {
		// DEEP values: the evolved message far down a spine of nested records, or enclosing one
		cfg.MaxDepth = c.R.Range(5, 12)
		cfg.MaxElems = 1
		cfg.FullMsg = 95
		cfg.Ladder, cfg.LongProb = 0, 0
		if c.R.Chance(1, 2) {
			cfg.MaxDepth = c.R.Range(12, 40)
			cfg.MaxNodes = 120
		}
		c.Count("deep_values", 1)
	} else if c.R.Chance(1, 6) {
		// now and then ONE string of the value runs to megabytes: what an older reader has
		// to step over in one go, or in all over the life of its reader
		cfg.Huge = 12
	}
	g := val.NewGen(sb.Schema, c.R.Fork("value"), cfg)
	d := cands[c.R.Intn(len(cands))]
	if !g.Inhabited(d.Name) {
		return nil
	}
	v := g.Record(d.Name)
	t := schema.Type{Named: d.Name}
	want := val.Normalise(sb.Schema, t, v)
	dropped := val.HasSkew(sb.Schema, rb.Schema, t, want)
	shape := sb.Schema.DefShape(d, 0)
	c.Log("C04", sb.Name(), rb.Name(), d.Name)
	c.Sample(map[string]interface{}{"sender": sb.Name(), "receiver": rb.Name(), "type": d.Name, "shape_new": shape, "shape_old": rb.Schema.DefShape(rb.Schema.Lookup(d.Name), 0), "value_has_fields_unknown_to_reader": dropped})
	data, spans := refcodec.EncodeSpans(sb.Schema, t, want)
	for _, e := range allEncoders {
		for _, dec := range []string{"unmarshal", "decode", "make", "makefrombytes", "mustunmarshal"} {
			sc := Scenario{Kind: "roundtrip", Prog: p.ID, Mask: sb.Mask, PeerMask: rb.Mask, OldPeer: true, Type: d.Name, Value: &v, Encoder: e, Decoder: dec, Order: drawOrder(c.R)}
			if e == "marshalto" {
				sc.Dirty = drawDirty(c.R)
			}
			if isStreamDecoder(dec) {
				sc.Sched = drawSchedule(c.R, len(data), spans)
				sc.Reader = readerKinds[c.R.Intn(len(readerKinds))]
			}
			viol := execRoundTrip(c.N, &sc)
			if sc.Extra["skipped"] != "" {
				continue
			}
			c.Count("evaluations", 1)
			c.Count("pair:"+e+">"+dec, 1)
			if dropped {
				c.Count("value_with_unknown_fields", 1)
				c.State("c04", shape, dec)
			}
			c.Log(e, dec, viol == nil)
			if viol != nil {
				if rp := c.shrinkAndReport(&sc, viol); rp != nil {
					return rp
				}
			}
		}
	}
	// on the stream: the record is followed by another one
	h := Scenario{Kind: "history", Prog: p.ID, Mask: sb.Mask, PeerMask: rb.Mask, OldPeer: true, Type: d.Name,
		Types: []string{d.Name, d.Name}, Values: []val.Value{v, g.Record(d.Name)}, Order: drawOrder(c.R), Trail: 3,
		Sched: drawSchedule(c.R, len(data), spans), Reader: readerKinds[c.R.Intn(len(readerKinds))], Decoder: "decode"}
	viol := execHistory(c.N, &h)
	c.Count("evaluations", 1)
	c.Count("pair:encode>history", 1)
	if viol != nil {
		if rp := c.shrinkAndReport(&h, viol); rp != nil {
			return rp
		}
	}
	return nil
}

// ---------------------------------------------------------------------------------
// C09: generator options never change the wire (option skew between peers)

func init() {
	props["C09"] = runC09
	execs["mustagree"] = execMustAgree
	execs["optbytes"] = execOptBytes
}

func runC09(c *Ctx) *Replay {
	cfg := val.DefaultCfg()
	var p *BatchProg
	for try := 0; try < 32; try++ {
		q := &c.N.Batch.Programs[c.R.Intn(len(c.N.Batch.Programs))]
		if len(c.N.ByProg[q.ID]) >= 2 {
			p = q
			break
		}
	}
	if p == nil {
		c.Count("no_pair", 1)
		return nil
	}
	bs := c.N.ByProg[p.ID]
	i := c.R.Intn(len(bs))
	j := c.R.Intn(len(bs) - 1)
	if j >= i {
		j++
	}
	sb, rb := bs[i], bs[j]
	recs := sb.Schema.Records()
	d := recs[c.R.Intn(len(recs))]
	g := val.NewGen(sb.Schema, c.R.Fork("value"), cfg)
	if sb.Types[d.Name] == nil || rb.Types[d.Name] == nil || !g.Inhabited(d.Name) {
		c.Count("no_record", 1)
		return nil
	}
	v := g.Record(d.Name)
	shape := sb.Schema.DefShape(d, 0)
	c.Log("C09", sb.Name(), rb.Name(), d.Name)
	c.Sample(map[string]interface{}{"program": p.ID, "sender_mask": sb.Mask, "receiver_mask": rb.Mask, "type": d.Name, "shape": shape})
	t := schema.Type{Named: d.Name}
	data, spans := refcodec.EncodeSpans(sb.Schema, t, val.Normalise(sb.Schema, t, v))
	// both decoders on a receiver that was used before (two valid encodings in a row)
	if c.R.Chance(1, 2) {
		for _, bl := range []*Build{sb, rb} {
			ms := Scenario{Kind: "mustagree", Prog: p.ID, Mask: bl.Mask, PeerMask: -1, Type: d.Name, Values: []val.Value{v, g.Record(d.Name)}}
			if c.R.Bool() {
				ms.Values[0], ms.Values[1] = ms.Values[1], ms.Values[0]
			}
			if c.R.Chance(1, 3) && sb.Schema.HasUnionBelow(t) {
				// the peer is one version ahead: every union below the top carries a member
				// this schema does not know (an empty one), which decoders step over
				ms.Extra = map[string]string{"newer_members": "1"}
				c.Count("must_agree_newer_union_members", 1)
			}
			if ms.Extra == nil && c.R.Chance(1, 3) && sb.Schema.HasMap(t) {
				// a peer that sends a map key twice (the format does not forbid it, and this
				// library's own encoders do it for Go keys that are one date): the last one wins
				ms.Extra = map[string]string{"repeat_keys": "1"}
				c.Count("must_agree_repeated_keys", 1)
			}
			viol := execMustAgree(c.N, &ms)
			if ms.Extra["skipped"] != "" {
				continue
			}
			c.Count("evaluations", 1)
			c.Count("must_agree_reused", 1)
			if viol != nil {
				if rp := c.shrinkAndReport(&ms, viol); rp != nil {
					return rp
				}
			}
		}
	}
	// "any valid input" is not only what this generator writes: a conformant third-party
	// peer (the reference encoder) sends map entries AND message fields in any order
	for _, e := range append(append([]string{}, allEncoders...), "reference") {
		if e != "reference" {
			sc := Scenario{Kind: "optbytes", Prog: p.ID, Mask: sb.Mask, PeerMask: rb.Mask, Type: d.Name, Value: &v, Encoder: e, Order: drawOrder(c.R)}
			if e == "marshalto" {
				sc.Dirty = drawDirty(c.R)
			}
			viol := execOptBytes(c.N, &sc)
			c.Count("evaluations", 1)
			c.Count("bytes:"+e, 1)
			c.State("c09b", shape, fmt.Sprint(sb.Mask^rb.Mask), e)
			c.Log("b", e, viol == nil)
			if viol != nil {
				if rp := c.shrinkAndReport(&sc, viol); rp != nil {
					return rp
				}
			}
		}
		for _, dec := range allDecoders {
			sc := Scenario{Kind: "roundtrip", Prog: p.ID, Mask: sb.Mask, PeerMask: rb.Mask, Type: d.Name, Value: &v, Encoder: e, Decoder: dec, Order: drawOrder(c.R)}
			if e == "reference" {
				sc.Order = MapOrder{Strategy: []int{simrt.OrderReverse, simrt.OrderRotate, simrt.OrderShuffle}[c.R.Intn(3)], Seed: c.R.Uint64(), Fields: true}
			}
			if obs := c.N.OldOf[p.ID]; e != "reference" && len(obs) > 0 && c.R.Chance(1, 3) {
				// "every valid encoding" includes those of a peer on the newer version of the
				// schema, which still sends what this reader has deprecated and adds fields it
				// does not know: every decoder of every option set reads them alike
				ob := obs[c.R.Intn(len(obs))]
				if ob.Types[d.Name] != nil {
					sc.OldPeer, sc.PeerMask = true, ob.Mask
					c.Count("old_reader_pairs", 1)
				}
			}
			if e == "marshalto" {
				sc.Dirty = drawDirty(c.R)
			}
			if isStreamDecoder(dec) {
				sc.Sched = drawSchedule(c.R, len(data), spans)
				sc.Reader = readerKinds[c.R.Intn(len(readerKinds))]
			}
			viol := execRoundTrip(c.N, &sc)
			if sc.Extra["skipped"] != "" {
				continue
			}
			c.Count("evaluations", 1)
			c.Count("pair:"+e+">"+dec, 1)
			c.Count(fmt.Sprintf("optdiff:%05b", sb.Mask^rb.Mask), 1)
			c.State("c09", shape, fmt.Sprint(sb.Mask^rb.Mask), dec)
			c.Log(e, dec, viol == nil)
			if viol != nil {
				if rp := c.shrinkAndReport(&sc, viol); rp != nil {
					return rp
				}
			}
		}
	}
	return nil
}

// execMustAgree: "where MustUnmarshalBebop is generated it agrees with UnmarshalBebop on
// every valid encoding" - also when the receiver is not fresh. Both decoders get a receiver
// of their own, decode the encoding of Values[0] into it and then the encoding of
// Values[1]; what the two receivers hold afterwards must be the same (whatever a decoder
// does with fields the second encoding lacks, both must do it).
func execMustAgree(n *Node, sc *Scenario) *Violation {
	b := n.Build(sc.Prog, sc.Mask, false)
	if b == nil || len(sc.Values) < 2 {
		note(sc, "skipped", "build absent")
		return nil
	}
	t, _, err := n.typeOf(b, sc.Type)
	if err != nil || t.MustUnmarshal == nil {
		note(sc, "skipped", "decoder not generated")
		return nil
	}
	tt := schema.Type{Named: sc.Type}
	kind := recordKind(b.Schema, sc.Type)
	var encs [][]byte
	for i := 0; i < 2; i++ {
		nv := val.Normalise(b.Schema, tt, sc.Values[i])
		if sc.Extra["newer_members"] == "1" {
			nv = foreignMembers(b.Schema, tt, nv, true)
		}
		if sc.Extra["repeat_keys"] == "1" {
			nv = repeatKeys(b.Schema, tt, nv)
		}
		encs = append(encs, refcodec.Encode(b.Schema, tt, nv))
	}
	checked, must := t.New(), t.New()
	var kept [2]reflect.Value
	var keptTree [2]val.Value
	var keptErr [2]error
	// every decode gets a buffer of its own that stays alive and untouched (builds that
	// share string memory alias them)
	var keep [][]byte
	for i := 0; i < 2; i++ {
		b1, b2 := append([]byte(nil), encs[i]...), append([]byte(nil), encs[i]...)
		keep = append(keep, b1, b2)
		var uerr error
		cr := safeCall(0, 0, func() { uerr = checked.UnmarshalBebop(b1) })
		if v := callViolation(&cr, sc, b.Schema, "unmarshal"); v != nil {
			return v
		}
		if uerr != nil {
			return mismatch("decode-error|unmarshal|"+kind, "UnmarshalBebop rejected a valid encoding: "+uerr.Error(), nil)
		}
		cr = safeCall(0, 0, func() { t.MustUnmarshal(must, b2) })
		if v := callViolation(&cr, sc, b.Schema, "mustunmarshal"); v != nil {
			return v
		}
		if i == 0 {
			// the caller keeps what the first decode gave it (a plain assignment of the record)
			for k, rec := range []reg.Record{checked, must} {
				cp := reflect.New(reflect.ValueOf(rec).Elem().Type())
				cp.Elem().Set(reflect.ValueOf(rec).Elem())
				kept[k] = cp
				keptTree[k], _, keptErr[k] = n.readBack(b, sc.Type, cp.Interface().(reg.Record))
			}
		}
	}
	// ... and it is still that after the receiver was decoded into again
	for k, name := range []string{"UnmarshalBebop", "MustUnmarshalBebop"} {
		if keptErr[k] != nil || !kept[k].IsValid() {
			continue
		}
		now, _, err := n.readBack(b, sc.Type, kept[k].Interface().(reg.Record))
		if err != nil {
			continue
		}
		if d := val.Diff(b.Schema, tt, val.Canon(b.Schema, tt, keptTree[k]), val.Canon(b.Schema, tt, now)); d != "" {
			return mismatch("kept-value-changed|"+name+"|"+kind+"|"+pathShape(d), fmt.Sprintf("a value decoded by %s and kept by the caller changed when the same receiver decoded the next valid encoding: %s", name, d),
				map[string]string{"record_kind": kind, "path": pathShape(d), "op": name})
		}
	}
	gc, _, err1 := n.readBack(b, sc.Type, checked)
	gm, _, err2 := n.readBack(b, sc.Type, must)
	_ = keep
	if err1 != nil || err2 != nil {
		return nil // a receiver with two union members set has no tree form: nothing to compare
	}
	// agreement is about the Go values the two decoders leave behind, also about which
	// containers are nil and which are empty (a caller that stores into a decoded map sees
	// the difference as a panic)
	if a, m := nilContainers(gc), nilContainers(gm); a != m {
		return mismatch("must-disagrees-reused|"+kind+"|nil-containers", fmt.Sprintf("after decoding the same valid encodings UnmarshalBebop leaves %d nil arrays/maps, MustUnmarshalBebop %d", a, m),
			map[string]string{"record_kind": kind, "path": "nil-containers"})
	}
	if d := val.Diff(b.Schema, tt, val.Canon(b.Schema, tt, gc), val.Canon(b.Schema, tt, gm)); d != "" {
		return mismatch("must-disagrees-reused|"+kind+"|"+pathShape(d), fmt.Sprintf("after decoding two valid encodings in a row into one receiver each, UnmarshalBebop and MustUnmarshalBebop hold different values: %s", d),
			map[string]string{"record_kind": kind, "path": pathShape(d)})
	}
	return nil
}

// nilContainers counts the arrays and maps of a tree read back from Go that were nil.
func nilContainers(v val.Value) int {
	n := 0
	if v.Nil {
		n++
	}
	for _, e := range v.Elems {
		n += nilContainers(e)
	}
	for _, e := range v.Vals {
		n += nilContainers(e)
	}
	for _, f := range v.Fields {
		n += nilContainers(f.V)
	}
	if v.Body != nil {
		n += nilContainers(*v.Body)
	}
	return n
}

// repeatKeys sends the first key of every non-empty map once more, at the end, with the
// value of the entry that was last.
func repeatKeys(s *schema.Schema, t schema.Type, v val.Value) val.Value {
	switch {
	case t.Array != nil:
		out := v
		out.Elems = make([]val.Value, len(v.Elems))
		for i, e := range v.Elems {
			out.Elems[i] = repeatKeys(s, *t.Array, e)
		}
		return out
	case t.MapV != nil:
		out := v
		out.Keys = append([]val.Value(nil), v.Keys...)
		out.Vals = make([]val.Value, len(v.Vals))
		for i, e := range v.Vals {
			out.Vals[i] = repeatKeys(s, *t.MapV, e)
		}
		// (not for float keys: a NaN sent twice is two entries with the same bits, which no
		// order of reading back can tell apart)
		if n := len(out.Keys); n > 0 && n == len(out.Vals) && t.MapK != "float32" && t.MapK != "float64" {
			out.Keys = append(out.Keys, out.Keys[0])
			out.Vals = append(out.Vals, out.Vals[n-1])
		}
		return out
	case t.Prim != "":
		return v
	}
	d := s.Lookup(t.Named)
	if d == nil {
		return v
	}
	switch d.Kind {
	case schema.KStruct:
		out := v
		out.Elems = make([]val.Value, len(v.Elems))
		for i, e := range v.Elems {
			if i < len(d.Fields) {
				e = repeatKeys(s, d.Fields[i].Type, e)
			}
			out.Elems[i] = e
		}
		return out
	case schema.KMessage:
		out := v
		out.Fields = make([]val.MsgField, len(v.Fields))
		for i, f := range v.Fields {
			out.Fields[i] = f
			for _, fd := range d.Fields {
				if fd.Index == f.Index {
					out.Fields[i].V = repeatKeys(s, fd.Type, f.V)
				}
			}
		}
		return out
	case schema.KUnion:
		if v.Body != nil {
			for _, b := range d.Branches {
				if b.Disc == v.Disc {
					body := repeatKeys(s, schema.Type{Named: b.Def.Name}, *v.Body)
					out := v
					out.Body = &body
					return out
				}
			}
		}
	}
	return v
}

// foreignMembers replaces every union of v below the top level by a member with a
// discriminator the schema does not have and an empty body.
func foreignMembers(s *schema.Schema, t schema.Type, v val.Value, top bool) val.Value {
	switch {
	case t.Array != nil:
		out := v
		out.Elems = make([]val.Value, len(v.Elems))
		for i, e := range v.Elems {
			out.Elems[i] = foreignMembers(s, *t.Array, e, false)
		}
		return out
	case t.MapV != nil:
		out := v
		out.Vals = make([]val.Value, len(v.Vals))
		for i, e := range v.Vals {
			out.Vals[i] = foreignMembers(s, *t.MapV, e, false)
		}
		return out
	case t.Prim != "":
		return v
	}
	d := s.Lookup(t.Named)
	if d == nil {
		return v
	}
	switch d.Kind {
	case schema.KStruct:
		out := v
		out.Elems = make([]val.Value, len(v.Elems))
		for i, e := range v.Elems {
			if i < len(d.Fields) {
				e = foreignMembers(s, d.Fields[i].Type, e, false)
			}
			out.Elems[i] = e
		}
		return out
	case schema.KMessage:
		out := v
		out.Fields = make([]val.MsgField, len(v.Fields))
		for i, f := range v.Fields {
			out.Fields[i] = f
			for _, fd := range d.Fields {
				if fd.Index == f.Index {
					out.Fields[i].V = foreignMembers(s, fd.Type, f.V, false)
				}
			}
		}
		return out
	case schema.KUnion:
		if !top {
			used := map[uint8]bool{}
			for _, b := range d.Branches {
				used[b.Disc] = true
			}
			disc := uint8(255)
			for used[disc] && disc > 1 {
				disc--
			}
			return val.Value{Disc: disc, Body: &val.Value{}}
		}
		if v.Body != nil {
			for _, b := range d.Branches {
				if b.Disc == v.Disc {
					body := foreignMembers(s, schema.Type{Named: b.Def.Name}, *v.Body, false)
					out := v
					out.Body = &body
					return out
				}
			}
		}
	}
	return v
}

func execOptBytes(n *Node, sc *Scenario) *Violation {
	a := n.Build(sc.Prog, sc.Mask, false)
	b := n.Build(sc.Prog, sc.PeerMask, false)
	if a == nil || b == nil {
		note(sc, "skipped", "build absent")
		return nil
	}
	kind := recordKind(a.Schema, sc.Type)
	var outs [2][]byte
	for i, bl := range []*Build{a, b} {
		rec, err := n.fill(bl, sc.Type, *sc.Value)
		if err != nil {
			return mismatch("bridge|fill", err.Error(), nil)
		}
		eo := n.encode(rec, sc.Encoder, sc.Order, sc.Dirty, nil, "")
		if v := callViolation(&eo.Call, sc, bl.Schema, sc.Encoder); v != nil {
			v.Facts["mask"] = fmt.Sprint(bl.Mask)
			return v
		}
		if eo.Err != nil {
			return mismatch("encode-error", eo.Err.Error(), nil)
		}
		outs[i] = eo.Bytes
	}
	if !bytes.Equal(outs[0], outs[1]) {
		return mismatch("option-bytes|"+sc.Encoder+"|"+kind, fmt.Sprintf("%s under options %05b wrote %d bytes, under %05b %d bytes; first difference at %d",
			sc.Encoder, sc.Mask, len(outs[0]), sc.PeerMask, len(outs[1]), firstDiff(outs[0], outs[1])), map[string]string{"record_kind": kind})
	}
	return nil
}

var _ = simnet.ErrReset
