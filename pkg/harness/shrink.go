package harness

import (
	"encoding/json"

	"verif/pkg/schema"
	"verif/pkg/simnet"
	"verif/pkg/val"
	"verif/simrt"
)

var seenSig = map[string]bool{}

// dupMarker ends a run without emitting anything: the violation was already reported by
// this process. (A run ends on every unknown violation, fresh or duplicate, so that what a
// run does never depends on which other runs the same process executed before it.)
var dupMarker = &Replay{}

// gate classifies a violation. Known finding: counted, first example kept for the
// summary, (nil, false) - the run goes on. Duplicate: (dupMarker, false). New: (rp, true).
func (c *Ctx) gate(sc *Scenario, v *Violation, shrink func(rp *Replay)) (*Replay, bool) {
	rp := &Replay{Property: c.N.Batch.Property, Scenario: *sc, Violation: *v}
	rp.Violation.Property = c.N.Batch.Property
	for i := range c.N.Batch.Known {
		k := &c.N.Batch.Known[i]
		if k.Match(rp) {
			c.Count("known:"+k.ID, 1)
			if !seenSig["known:"+k.ID] {
				seenSig["known:"+k.ID] = true
				if shrink != nil {
					shrink(rp)
				}
				rp.Known = k.ID
				rp.Format = "verif-replay/1"
				rp.Seed = c.N.Batch.Seed
				rp.Run = c.Run
				c.N.attachPrograms(rp)
				c.N.KnownExamples = append(c.N.KnownExamples, rp)
			}
			return nil, false
		}
	}
	c.Count("violations_raw", 1)
	if seenSig[v.Signature] {
		return dupMarker, false
	}
	seenSig[v.Signature] = true
	return rp, true
}

// shrinkAndReport is called with a scenario that violated: known findings let the run go
// on (nil); otherwise the scenario is minimised while the signature stays the same.
func (c *Ctx) shrinkAndReport(sc *Scenario, v *Violation) *Replay {
	if encCache.armed {
		// shrinking works on copies of the value: no caching meanwhile, the loop that
		// called goes on with a fresh entry
		armEncCache()()
		defer armEncCache()
	}
	rp, fresh := c.gate(sc, v, c.shrink)
	if fresh {
		c.shrink(rp)
	}
	return rp
}

func cloneScenario(sc *Scenario) Scenario {
	b, _ := json.Marshal(sc)
	var out Scenario
	json.Unmarshal(b, &out)
	return out
}

// shrink minimises rp.Scenario in place.
func (c *Ctx) shrink(rp *Replay) {
	ex := execs[rp.Scenario.Kind]
	if ex == nil {
		return
	}
	sig := rp.Violation.Signature
	budget := 600
	if cl := rp.Violation.Class; cl == "steps" || cl == "alloc" || cl == "hang" {
		// every candidate that still violates runs into the budget again (millions of loop
		// turns): fewer candidates, so that minimising a runaway never meets the watchdog
		budget = 40
	}
	try := func(cand *Scenario) bool {
		if budget <= 0 {
			return false
		}
		budget--
		v := ex(c.N, cand)
		if v != nil && v.Signature == sig {
			rp.Scenario = *cand
			rp.Violation = *v
			rp.Violation.Property = rp.Property
			rp.Shrunk++
			return true
		}
		return false
	}
	// environment first: simplest schedule, reader, order, buffer
	simple := []func(*Scenario) bool{
		func(s *Scenario) bool {
			if s.Sched == nil || (len(s.Sched.Chunks) == 0 && s.Sched.Repeat == 0 && !s.Sched.EOFWithData) {
				return false
			}
			s.Sched = &simnet.Schedule{Name: "all"}
			return true
		},
		func(s *Scenario) bool {
			if s.Sched == nil || len(s.Sched.Chunks) == 0 {
				return false
			}
			s.Sched = &simnet.Schedule{Name: "1-byte", Repeat: 1, EOFWithData: s.Sched.EOFWithData}
			return true
		},
		func(s *Scenario) bool {
			if s.Reader == "" || s.Reader == "plain" {
				return false
			}
			s.Reader = "plain"
			return true
		},
		func(s *Scenario) bool {
			if s.Writer == "" || s.Writer == "plain" {
				return false
			}
			s.Writer = "plain"
			return true
		},
		func(s *Scenario) bool {
			if s.Order.Strategy == simrt.OrderCanonical {
				return false
			}
			s.Order = MapOrder{Strategy: simrt.OrderCanonical}
			return true
		},
		func(s *Scenario) bool {
			if s.Dirty == nil || s.Dirty.Pad == 0 {
				return false
			}
			s.Dirty.Pad = 0
			return true
		},
		func(s *Scenario) bool {
			if s.Trail == 0 {
				return false
			}
			s.Trail = 0
			return true
		},
	}
	for _, f := range simple {
		cand := cloneScenario(&rp.Scenario)
		if f(&cand) {
			try(&cand)
		}
	}
	// histories: drop records
	for len(rp.Scenario.Values) > 1 && budget > 0 {
		progress := false
		for i := len(rp.Scenario.Values) - 1; i >= 0; i-- {
			cand := cloneScenario(&rp.Scenario)
			cand.Values = append(cand.Values[:i], cand.Values[i+1:]...)
			if len(cand.Types) > i {
				cand.Types = append(cand.Types[:i], cand.Types[i+1:]...)
			}
			if try(&cand) {
				progress = true
				break
			}
		}
		if !progress {
			break
		}
	}
	// values
	b := c.N.Build(rp.Scenario.Prog, rp.Scenario.Mask, false)
	if b == nil {
		return
	}
	if rp.Scenario.Value != nil {
		t := schema.Type{Named: rp.Scenario.Type}
		for budget > 0 {
			progress := false
			for _, cv := range shrinkValue(b.Schema, t, *rp.Scenario.Value) {
				cand := cloneScenario(&rp.Scenario)
				cv := cv
				cand.Value = &cv
				if cand.Cut > 0 || cand.RFault != nil || cand.WFault != nil || len(cand.Input) > 0 {
					// positions refer to the old encoding; executors re-derive or clamp
				}
				if try(&cand) {
					progress = true
					break
				}
				if budget <= 0 {
					break
				}
			}
			if !progress {
				break
			}
		}
	}
	for vi := range rp.Scenario.Values {
		if vi >= len(rp.Scenario.Types) {
			break
		}
		t := schema.Type{Named: rp.Scenario.Types[vi]}
		for budget > 0 {
			progress := false
			for _, cv := range shrinkValue(b.Schema, t, rp.Scenario.Values[vi]) {
				cand := cloneScenario(&rp.Scenario)
				cand.Values[vi] = cv
				if try(&cand) {
					progress = true
					break
				}
				if budget <= 0 {
					break
				}
			}
			if !progress {
				break
			}
		}
	}
}

// shrinkValue lists one-step reductions of v, most aggressive first.
func shrinkValue(s *schema.Schema, t schema.Type, v val.Value) []val.Value {
	var out []val.Value
	switch {
	case t.Array != nil:
		if len(v.Elems) > 0 {
			out = append(out, val.Value{})
			if len(v.Elems) > 1 {
				h := v
				h.Elems = append([]val.Value(nil), v.Elems[:len(v.Elems)/2]...)
				out = append(out, h)
				for i := range v.Elems {
					if i >= 8 {
						break
					}
					d := v
					d.Elems = append(append([]val.Value(nil), v.Elems[:i]...), v.Elems[i+1:]...)
					out = append(out, d)
				}
			}
			for i := range v.Elems {
				if i >= 6 {
					break
				}
				for _, e := range shrinkValue(s, *t.Array, v.Elems[i]) {
					d := v
					d.Elems = append([]val.Value(nil), v.Elems...)
					d.Elems[i] = e
					out = append(out, d)
				}
			}
		} else if v.Nil {
			out = append(out, val.Value{})
		}
	case t.MapV != nil:
		if len(v.Keys) > 0 {
			out = append(out, val.Value{})
			for i := range v.Keys {
				if i >= 8 || len(v.Keys) == 1 {
					break
				}
				d := v
				d.Keys = append(append([]val.Value(nil), v.Keys[:i]...), v.Keys[i+1:]...)
				d.Vals = append(append([]val.Value(nil), v.Vals[:i]...), v.Vals[i+1:]...)
				out = append(out, d)
			}
			for i := range v.Vals {
				if i >= 6 {
					break
				}
				for _, e := range shrinkValue(s, *t.MapV, v.Vals[i]) {
					d := v
					d.Vals = append([]val.Value(nil), v.Vals...)
					d.Vals[i] = e
					out = append(out, d)
				}
			}
		}
	case t.Prim == "string":
		if len(v.B) > 0 {
			out = append(out, val.Value{B: []byte{}})
			if len(v.B) > 1 {
				out = append(out, val.Value{B: v.B[:len(v.B)/2]})
			}
		}
	case t.Prim == "date":
		if v.Date != nil && !v.Date.Zero {
			out = append(out, val.Value{Date: &val.Date{Zero: true}})
			if v.Date.Offset != 0 {
				out = append(out, val.Value{Date: &val.Date{Nanos: v.Date.Nanos}})
			}
		}
	case t.Prim == "guid":
		zero := true
		for _, x := range v.B {
			if x != 0 {
				zero = false
			}
		}
		if !zero {
			out = append(out, val.Value{B: make([]byte, 16)})
		}
	case t.Prim != "":
		if v.U != 0 {
			out = append(out, val.Value{U: 0})
			if v.U != 1 {
				out = append(out, val.Value{U: 1})
			}
		}
	default:
		d := s.Lookup(t.Named)
		if d == nil {
			return nil
		}
		switch d.Kind {
		case schema.KEnum:
			if v.U != 0 {
				out = append(out, val.Value{U: 0})
			}
		case schema.KStruct:
			for i, f := range d.Fields {
				if i >= len(v.Elems) {
					break
				}
				for _, e := range shrinkValue(s, f.Type, v.Elems[i]) {
					c := v
					c.Elems = append([]val.Value(nil), v.Elems...)
					c.Elems[i] = e
					out = append(out, c)
				}
			}
		case schema.KMessage:
			if len(v.Fields) > 0 {
				out = append(out, val.Value{})
				for i := range v.Fields {
					if len(v.Fields) == 1 {
						break
					}
					c := v
					c.Fields = append(append([]val.MsgField(nil), v.Fields[:i]...), v.Fields[i+1:]...)
					out = append(out, c)
				}
				for i, mf := range v.Fields {
					fd := val.MsgFieldDef(d, mf.Index)
					if fd == nil {
						continue
					}
					for _, e := range shrinkValue(s, fd.Type, mf.V) {
						c := v
						c.Fields = append([]val.MsgField(nil), v.Fields...)
						c.Fields[i] = val.MsgField{Index: mf.Index, V: e}
						out = append(out, c)
					}
				}
			}
		case schema.KUnion:
			if len(v.Also) > 0 {
				c := v
				c.Also = nil
				out = append(out, c)
			}
			if v.Body != nil {
				for _, br := range d.Branches {
					if br.Disc == v.Disc {
						for _, e := range shrinkValue(s, schema.Type{Named: br.Def.Name}, *v.Body) {
							e := e
							out = append(out, val.Value{Disc: v.Disc, Body: &e})
						}
					}
				}
			}
		}
	}
	if len(out) > 40 {
		out = out[:40]
	}
	return out
}
