// Package harness is the simulation node: it is linked with the packages the real
// generator emitted for this batch and drives them through scenarios that are explicit
// data (program, value, transport pairing, chunk schedule, fault trace, map order), so
// that generating, executing, minimising and replaying a case all use the same executor.
package harness

import (
	"encoding/json"
	"flag"
	"fmt"
	"hash/fnv"
	"os"
	"runtime"
	"runtime/debug"
	"runtime/pprof"
	"sort"
	"strings"
	"time"
	"verif/simrt"

	"verif/pkg/prng"
	"verif/pkg/proto"
	"verif/pkg/reg"
	"verif/pkg/schema"
)

// ---------------------------------------------------------------------------------
// registry (filled by the generated main)

type goPkg struct {
	prog  string
	mask  int
	old   bool
	types []reg.Type
}

var registered []goPkg

func Register(prog string, mask int, old bool, types []reg.Type) {
	registered = append(registered, goPkg{prog, mask, old, types})
}

// Build is one compiled (program, mask, version) with its Go types resolved.
type Build struct {
	Prog   *BatchProg
	Mask   int
	Old    bool
	Schema *schema.Schema
	Types  map[string]*reg.Type // by schema record name
}

func (b *Build) Name() string {
	o := ""
	if b.Old {
		o = "o"
	}
	return fmt.Sprintf("%s%sm%02d", b.Prog.ID, o, b.Mask)
}

type Node struct {
	Batch  *Batch
	Builds []*Build
	byKey  map[string]*Build
	// per program: builds of the current schema, in mask order
	ByProg map[string][]*Build
	OldOf  map[string][]*Build

	Counters map[string]int64
	States   map[uint64]struct{}
	Samples  []json.RawMessage
	guard    *guardBuf
	// prefill != nil: decode() hands out receivers that these bytes were decoded into first
	prefill []byte
	// spareTail != nil: byte decoders get their input as a view with these bytes behind it
	// in spare capacity (instead of an exact-capacity buffer in front of a guard page)
	spareTail []byte
	// KnownExamples holds the first scenario per open known finding this process met.
	KnownExamples []*Replay
}

func buildKey(prog string, mask int, old bool) string {
	return fmt.Sprintf("%s/%d/%v", prog, mask, old)
}

func (n *Node) Build(prog string, mask int, old bool) *Build {
	return n.byKey[buildKey(prog, mask, old)]
}

func matchGoName(schemaName, goName string) bool {
	if len(schemaName) == 0 || len(schemaName) != len(goName) {
		return false
	}
	return strings.EqualFold(schemaName[:1], goName[:1]) && schemaName[1:] == goName[1:]
}

func newNode(b *Batch) (*Node, error) {
	n := &Node{Batch: b, byKey: map[string]*Build{}, ByProg: map[string][]*Build{}, OldOf: map[string][]*Build{},
		Counters: map[string]int64{}, States: map[uint64]struct{}{}}
	progs := map[string]*BatchProg{}
	for i := range b.Programs {
		p := &b.Programs[i]
		p.Schema.Reindex()
		if p.Old != nil {
			p.Old.Reindex()
		}
		progs[p.ID] = p
	}
	sort.SliceStable(registered, func(i, j int) bool {
		a, c := registered[i], registered[j]
		if a.prog != c.prog {
			return a.prog < c.prog
		}
		if a.old != c.old {
			return !a.old
		}
		return a.mask < c.mask
	})
	for i := range registered {
		gp := &registered[i]
		p := progs[gp.prog]
		if p == nil {
			continue
		}
		bl := &Build{Prog: p, Mask: gp.mask, Old: gp.old, Schema: p.Schema, Types: map[string]*reg.Type{}}
		if gp.old {
			bl.Schema = p.Old
		}
		for _, d := range bl.Schema.Records() {
			for j := range gp.types {
				if matchGoName(d.Name, gp.types[j].GoName) {
					bl.Types[d.Name] = &gp.types[j]
				}
			}
		}
		n.Builds = append(n.Builds, bl)
		n.byKey[buildKey(gp.prog, gp.mask, gp.old)] = bl
		if gp.old {
			n.OldOf[gp.prog] = append(n.OldOf[gp.prog], bl)
		} else {
			n.ByProg[gp.prog] = append(n.ByProg[gp.prog], bl)
		}
	}
	n.guard = newGuardBuf(1 << 20)
	return n, nil
}

type (
	BatchProg    = proto.BatchProg
	Batch        = proto.Batch
	MapOrder     = proto.MapOrder
	Dirty        = proto.Dirty
	Giant        = proto.Giant
	Scenario     = proto.Scenario
	Violation    = proto.Violation
	ReplayProg   = proto.ReplayProg
	Replay       = proto.Replay
	Report       = proto.Report
	KnownFinding = proto.KnownFinding
	FileOp       = proto.FileOp
)

// ---------------------------------------------------------------------------------
// run context

type Ctx struct {
	N    *Node
	Run  int
	R    *prng.Rand
	hash uint64
	// onlyProgram restricts pickRecord to the program of that schema name (a fixed share of
	// a check's runs goes to a core program whose shape the general draw reaches too rarely)
	onlyProgram string
}

func (c *Ctx) Count(name string, d int64) {
	c.N.Counters[name] += d
	c.Log("#", name, d)
}

func (c *Ctx) State(parts ...string) {
	h := fnv.New64a()
	for _, p := range parts {
		h.Write([]byte(p))
		h.Write([]byte{0})
	}
	c.N.States[h.Sum64()] = struct{}{}
	c.Log("@", h.Sum64())
}

// Log folds an event into the run's log hash. It never draws from the PRNG.
func (c *Ctx) Log(parts ...interface{}) {
	h := fnv.New64a()
	var b [8]byte
	for i := 0; i < 8; i++ {
		b[i] = byte(c.hash >> (8 * uint(i)))
	}
	h.Write(b[:])
	fmt.Fprint(h, parts...)
	c.hash = h.Sum64()
	if traceLog {
		fmt.Fprintln(os.Stderr, "LOG", c.Run, fmt.Sprint(parts...))
	}
	if traceFile != nil {
		fmt.Fprintln(traceFile, "LOG", c.Run, fmt.Sprint(parts...))
	}
}

// traceFile (VERIF_TRACEFILE=<prefix>): every log line of every run, one file per node
// process; the determinism self-test uses it to show WHERE two executions part.
var traceFile = func() *os.File {
	if p := os.Getenv("VERIF_TRACEFILE"); p != "" {
		f, _ := os.Create(fmt.Sprintf("%s.%d", p, os.Getpid()))
		return f
	}
	return nil
}()

func (c *Ctx) Sample(v interface{}) {
	if len(c.N.Samples) < 3 {
		b, _ := json.Marshal(v)
		if len(b) > 6000 {
			return
		}
		c.N.Samples = append(c.N.Samples, b)
	}
}

var traceLog = os.Getenv("VERIF_TRACE") != ""

// property table
type propFn func(c *Ctx) *Replay

var props = map[string]propFn{}

// replay executors: scenario kind -> executor
type execFn func(n *Node, sc *Scenario) *Violation

var execs = map[string]execFn{}

// ---------------------------------------------------------------------------------
// main

func Main() {
	debug.SetMaxStack(256 << 20)
	debug.SetGCPercent(400)
	batchFile := flag.String("batch", "", "batch description")
	from := flag.Int("from", 0, "first run")
	to := flag.Int("to", 0, "one past the last run")
	stride := flag.Int("stride", 1, "run index stride")
	replayFile := flag.String("replay", "", "replay file to execute")
	runlog := flag.Bool("runlog", false, "emit per-run log hashes")
	curFile := flag.String("cur", "", "file that names the run in flight")
	oneshot := flag.Bool("oneshot", false, "C14: execute one library call described on stdin in this fresh process")
	flag.Parse()
	if *oneshot {
		os.Exit(oneshotMain())
	}
	runtime.GOMAXPROCS(1)
	if s := os.Getenv("VERIF_NODE_GOMAXPROCS"); s != "" {
		var v int
		if _, err := fmt.Sscan(s, &v); err == nil && v > 0 {
			runtime.GOMAXPROCS(v) // determinism self-test only
		}
	}

	if *replayFile != "" {
		os.Exit(replayMain(*replayFile))
	}
	bb, err := os.ReadFile(*batchFile)
	if err != nil {
		fatal(err)
	}
	var batch Batch
	if err := json.Unmarshal(bb, &batch); err != nil {
		fatal(err)
	}
	n, err := newNode(&batch)
	if err != nil {
		fatal(err)
	}
	fn := props[batch.Property]
	if fn == nil {
		fatal(fmt.Errorf("property %s has no simulation", batch.Property))
	}
	if pf := os.Getenv("VERIF_CPUPROFILE"); pf != "" {
		if f, err := os.Create(pf); err == nil {
			pprof.StartCPUProfile(f)
			defer pprof.StopCPUProfile()
		}
	}
	enc := json.NewEncoder(os.Stdout)
	var cur *os.File
	if *curFile != "" {
		cur, _ = os.Create(*curFile)
	}
	total := fnv.New64a()
	var runHashes []string
	for i := *from; i < *to; i += *stride {
		if cur != nil {
			cur.WriteAt([]byte(fmt.Sprintf("%-12d", i)), 0)
		}
		c := &Ctx{N: n, Run: i, R: prng.Derive(batch.Seed, batch.Property, uint64(i))}
		if batch.Property != "C14" {
			// pooled objects never survive from one run to the next (C14 models pools under
			// its own scheduler and resets them per scenario)
			simrt.ModelPools(true)
			simrt.ResetPools()
		}
		t0 := time.Now()
		rp := fn(c)
		if tf := os.Getenv("VERIF_TIMING"); tf != "" {
			// development aid: wall time of slow runs, appended to a side file (never read back)
			if d := time.Since(t0); d > 300*time.Millisecond {
				if f, err := os.OpenFile(tf, os.O_APPEND|os.O_CREATE|os.O_WRONLY, 0o644); err == nil {
					fmt.Fprintf(f, "%s run=%d ms=%d evals=%d\n", batch.Property, i, d.Milliseconds(), n.Counters["evaluations"])
					f.Close()
				}
			}
		}
		n.Counters["runs"]++
		fmt.Fprintf(total, "%d:%x;", i, c.hash)
		if *runlog {
			runHashes = append(runHashes, fmt.Sprintf("%d:%016x", i, c.hash))
		}
		if rp != nil && rp != dupMarker {
			rp.Format = "verif-replay/1"
			rp.Property = batch.Property
			rp.Seed = batch.Seed
			rp.Run = i
			rp.Violation.Property = batch.Property
			n.attachPrograms(rp)
			enc.Encode(Report{Kind: "violation", Run: i, Replay: rp})
			n.Counters["violations"]++
		}
	}
	for _, rp := range n.KnownExamples {
		enc.Encode(Report{Kind: "violation", Run: rp.Run, Replay: rp})
	}
	states := make([]uint64, 0, len(n.States))
	for s := range n.States {
		states = append(states, s)
	}
	sort.Slice(states, func(i, j int) bool { return states[i] < states[j] })
	enc.Encode(Report{Kind: "summary", From: *from, To: *to, Counters: n.Counters, States: states,
		LogHash: fmt.Sprintf("%016x", total.Sum64()), RunHashes: runHashes, Samples: n.Samples})
	// the C14 workspace (a few schema files under the temp directory) goes with the node
	if c14ws != nil {
		os.RemoveAll(c14ws.dir)
	}
}

func fatal(err error) {
	fmt.Fprintln(os.Stderr, "simnode:", err)
	os.Exit(2)
}

func (n *Node) attachPrograms(rp *Replay) {
	for i := range n.Batch.Programs {
		p := &n.Batch.Programs[i]
		if p.ID != rp.Scenario.Prog {
			continue
		}
		var masks []int
		for _, b := range n.ByProg[p.ID] {
			masks = append(masks, b.Mask)
		}
		rp.Programs = append(rp.Programs, ReplayProg{ID: p.ID, Bop: p.Bop, Schema: p.Schema, Old: p.Old, OldBop: p.OldBop, Masks: masks})
	}
}

func replayMain(file string) int {
	b, err := os.ReadFile(file)
	if err != nil {
		fatal(err)
	}
	var rp Replay
	if err := json.Unmarshal(b, &rp); err != nil {
		fatal(err)
	}
	batch := &Batch{Property: rp.Property, Seed: rp.Seed, Params: rp.Params}
	if kf := os.Getenv("VERIF_KNOWN_FILE"); kf != "" {
		if kb, err := os.ReadFile(kf); err == nil {
			var ks []KnownFinding
			if json.Unmarshal(kb, &ks) == nil {
				for _, k := range ks {
					if k.Property == rp.Property && k.Status == "open" {
						batch.Known = append(batch.Known, k)
					}
				}
			}
		}
	}
	for _, p := range rp.Programs {
		batch.Programs = append(batch.Programs, BatchProg{ID: p.ID, Schema: p.Schema, Bop: p.Bop, Old: p.Old, OldBop: p.OldBop})
	}
	n, err := newNode(batch)
	if err != nil {
		fatal(err)
	}
	if rp.Property != "C14" {
		simrt.ModelPools(true)
		simrt.ResetPools()
	}
	if rp.Scenario.Kind == "rerun" {
		// the recorded case killed the process: run that run again, whole
		fn := props[rp.Property]
		if fn == nil {
			fatal(fmt.Errorf("property %s has no simulation", rp.Property))
		}
		c := &Ctx{N: n, Run: rp.Run, R: prng.Derive(rp.Seed, rp.Property, uint64(rp.Run))}
		got := fn(c)
		json.NewEncoder(os.Stdout).Encode(map[string]interface{}{"reproduced": false, "note": "the run completed without killing the process", "violation": got != nil})
		return 0
	}
	ex := execs[rp.Scenario.Kind]
	if ex == nil {
		fatal(fmt.Errorf("no executor for scenario kind %q", rp.Scenario.Kind))
	}
	v := ex(n, &rp.Scenario)
	out := map[string]interface{}{"reproduced": false}
	if v != nil {
		out["violation"] = v
		out["reproduced"] = v.Signature == rp.Violation.Signature
	}
	json.NewEncoder(os.Stdout).Encode(out)
	if v != nil && v.Signature == rp.Violation.Signature {
		return 1
	}
	if v != nil {
		return 3 // a violation, but not the recorded one
	}
	return 0
}
