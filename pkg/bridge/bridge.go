// Package bridge moves value trees into and out of the Go types emitted by the real
// generator. Members are matched by NAME (the generator exports or lower-cases the first
// letter, nothing else) with the position as fallback; Go fields that carry no schema member
// (a cache, a scratch buffer a generator may add) are left alone. Unexported fields of
// readonly structs and private definitions are reached through unsafe pointers.
package bridge

import (
	"fmt"
	"math"
	"reflect"
	"strings"
	"time"
	"unsafe"

	"verif/pkg/schema"
	"verif/pkg/val"
)

var timeType = reflect.TypeOf(time.Time{})

func field(v reflect.Value, i int) reflect.Value {
	f := v.Field(i)
	return reflect.NewAt(f.Type(), unsafe.Pointer(f.UnsafeAddr())).Elem()
}

// byName finds the Go struct field that carries the schema member called name (the
// generator exports or lower-cases the first letter, nothing else); position i is the
// fallback. Message fields are matched by name because the order in which a generator lays
// out the struct is not part of any property.
func byName(t reflect.Type, name string, i int) int {
	for k := 0; k < t.NumField(); k++ {
		if strings.EqualFold(t.Field(k).Name, name) {
			return k
		}
	}
	return i
}

// Field exposes field i of an addressable struct value, also when it is unexported.
func Field(v reflect.Value, i int) reflect.Value { return field(v, i) }

func addressable(v reflect.Value) reflect.Value {
	if v.CanAddr() {
		return v
	}
	nv := reflect.New(v.Type()).Elem()
	nv.Set(v)
	return nv
}

// ToGo writes v (of schema type t) into dst, which must be addressable and settable.
func ToGo(s *schema.Schema, t schema.Type, v val.Value, dst reflect.Value) (err error) {
	defer func() {
		if r := recover(); r != nil {
			err = fmt.Errorf("bridge.ToGo %s into %s: %v", t.String(), dst.Type(), r)
		}
	}()
	return toGo(s, t, v, dst)
}

func toGo(s *schema.Schema, t schema.Type, v val.Value, dst reflect.Value) error {
	switch {
	case t.Array != nil:
		if dst.Kind() != reflect.Slice {
			return fmt.Errorf("want slice for %s, have %s", t, dst.Type())
		}
		if v.Nil && len(v.Elems) == 0 {
			dst.Set(reflect.Zero(dst.Type()))
			return nil
		}
		sl := reflect.MakeSlice(dst.Type(), len(v.Elems), len(v.Elems))
		for i, e := range v.Elems {
			if err := toGo(s, *t.Array, e, sl.Index(i)); err != nil {
				return err
			}
		}
		dst.Set(sl)
		return nil
	case t.MapV != nil:
		if dst.Kind() != reflect.Map {
			return fmt.Errorf("want map for %s, have %s", t, dst.Type())
		}
		if v.Nil && len(v.Keys) == 0 {
			dst.Set(reflect.Zero(dst.Type()))
			return nil
		}
		m := reflect.MakeMapWithSize(dst.Type(), len(v.Keys))
		for i := range v.Keys {
			k := reflect.New(dst.Type().Key()).Elem()
			if err := toGo(s, schema.Type{Prim: t.MapK}, v.Keys[i], k); err != nil {
				return err
			}
			e := reflect.New(dst.Type().Elem()).Elem()
			if err := toGo(s, *t.MapV, v.Vals[i], e); err != nil {
				return err
			}
			m.SetMapIndex(k, e)
		}
		dst.Set(m)
		return nil
	case t.Prim != "":
		return primToGo(t.Prim, v, dst)
	}
	d := s.Lookup(t.Named)
	if d == nil {
		return fmt.Errorf("unknown type %s", t.Named)
	}
	switch d.Kind {
	case schema.KEnum:
		return intToGo(v.U, dst)
	case schema.KStruct:
		if dst.Kind() != reflect.Struct || dst.NumField() < len(d.Fields) {
			return fmt.Errorf("struct %s: Go type %s does not have %d fields", d.Name, dst.Type(), len(d.Fields))
		}
		for i, f := range d.Fields {
			var fv val.Value
			if i < len(v.Elems) {
				fv = v.Elems[i]
			}
			if err := toGo(s, f.Type, fv, field(dst, byName(dst.Type(), f.Name, i))); err != nil {
				return err
			}
		}
		return nil
	case schema.KMessage:
		if dst.Kind() != reflect.Struct || dst.NumField() < len(d.Fields) {
			return fmt.Errorf("message %s: Go type %s does not have %d fields", d.Name, dst.Type(), len(d.Fields))
		}
		for i, f := range d.Fields {
			k := byName(dst.Type(), f.Name, i)
			field(dst, k).Set(reflect.Zero(dst.Field(k).Type()))
		}
		for _, mf := range v.Fields {
			pos := -1
			for i, f := range d.Fields {
				if f.Index == mf.Index {
					pos = i
				}
			}
			if pos < 0 {
				return fmt.Errorf("message %s has no field %d", d.Name, mf.Index)
			}
			fd := field(dst, byName(dst.Type(), d.Fields[pos].Name, pos))
			if fd.Kind() != reflect.Ptr {
				return fmt.Errorf("message %s field %d is not a pointer in %s", d.Name, mf.Index, dst.Type())
			}
			p := reflect.New(fd.Type().Elem())
			if err := toGo(s, d.Fields[pos].Type, mf.V, p.Elem()); err != nil {
				return err
			}
			fd.Set(p)
		}
		return nil
	case schema.KUnion:
		if dst.Kind() != reflect.Struct || dst.NumField() < len(d.Branches) {
			return fmt.Errorf("union %s: Go type %s does not have %d fields", d.Name, dst.Type(), len(d.Branches))
		}
		for i, b := range d.Branches {
			k := byName(dst.Type(), b.Def.Name, i)
			field(dst, k).Set(reflect.Zero(dst.Field(k).Type()))
		}
		if v.Body == nil {
			return nil
		}
		set := func(disc uint8, body val.Value) error {
			for i, b := range d.Branches {
				if b.Disc == disc {
					fd := field(dst, byName(dst.Type(), b.Def.Name, i))
					p := reflect.New(fd.Type().Elem())
					if err := toGo(s, schema.Type{Named: b.Def.Name}, body, p.Elem()); err != nil {
						return err
					}
					fd.Set(p)
					return nil
				}
			}
			return fmt.Errorf("union %s has no branch %d", d.Name, disc)
		}
		if err := set(v.Disc, *v.Body); err != nil {
			return err
		}
		for _, a := range v.Also {
			if err := set(a.Index, a.V); err != nil {
				return err
			}
		}
		return nil
	}
	return nil
}

func intToGo(u uint64, dst reflect.Value) error {
	switch dst.Kind() {
	case reflect.Uint8, reflect.Uint16, reflect.Uint32, reflect.Uint64, reflect.Uint:
		dst.SetUint(u & (^uint64(0) >> (64 - uint(dst.Type().Bits()))))
	case reflect.Int8, reflect.Int16, reflect.Int32, reflect.Int64, reflect.Int:
		bits := uint(dst.Type().Bits())
		dst.SetInt(int64(u<<(64-bits)) >> (64 - bits))
	default:
		return fmt.Errorf("want integer, have %s", dst.Type())
	}
	return nil
}

func primToGo(p string, v val.Value, dst reflect.Value) error {
	switch p {
	case "bool":
		if dst.Kind() != reflect.Bool {
			return fmt.Errorf("want bool, have %s", dst.Type())
		}
		dst.SetBool(v.U != 0)
	case "byte", "uint8", "uint16", "int16", "uint32", "int32", "uint64", "int64":
		return intToGo(v.U, dst)
	case "float32":
		if dst.Kind() != reflect.Float32 {
			return fmt.Errorf("want float32, have %s", dst.Type())
		}
		// go through the pointer: SetFloat would go via float64 and may quiet a NaN
		*(*uint32)(unsafe.Pointer(dst.UnsafeAddr())) = uint32(v.U)
	case "float64":
		if dst.Kind() != reflect.Float64 {
			return fmt.Errorf("want float64, have %s", dst.Type())
		}
		*(*uint64)(unsafe.Pointer(dst.UnsafeAddr())) = v.U
	case "string":
		if dst.Kind() != reflect.String {
			return fmt.Errorf("want string, have %s", dst.Type())
		}
		dst.SetString(string(v.B))
	case "guid":
		if dst.Kind() != reflect.Array || dst.Len() != 16 {
			return fmt.Errorf("want [16]byte, have %s", dst.Type())
		}
		for i := 0; i < 16 && i < len(v.B); i++ {
			dst.Index(i).SetUint(uint64(v.B[i]))
		}
	case "date":
		if dst.Type() != timeType {
			return fmt.Errorf("want time.Time, have %s", dst.Type())
		}
		var tm time.Time
		if v.Date != nil && !v.Date.Zero {
			tm = time.Unix(0, v.Date.Nanos)
			if v.Date.Far {
				tm = time.Unix(v.Date.Sec, v.Date.Nanos)
			}
			if v.Date.Offset != 0 {
				tm = tm.In(time.FixedZone("sim", v.Date.Offset))
			} else {
				tm = tm.UTC()
			}
		}
		dst.Set(reflect.ValueOf(tm))
	default:
		return fmt.Errorf("unknown primitive %s", p)
	}
	return nil
}

// Notes collects observations FromGo makes that are not part of the value tree.
type Notes struct {
	NonUTCDates int // decoded non-zero dates whose location is not UTC
}

// FromGo reads a Go value of schema type t into a tree.
func FromGo(s *schema.Schema, t schema.Type, src reflect.Value, notes *Notes) (v val.Value, err error) {
	defer func() {
		if r := recover(); r != nil {
			err = fmt.Errorf("bridge.FromGo %s from %s: %v", t.String(), src.Type(), r)
		}
	}()
	return fromGo(s, t, src, notes)
}

func fromGo(s *schema.Schema, t schema.Type, src reflect.Value, notes *Notes) (val.Value, error) {
	switch {
	case t.Array != nil:
		if src.Kind() != reflect.Slice {
			return val.Value{}, fmt.Errorf("want slice for %s, have %s", t, src.Type())
		}
		out := val.Value{Nil: src.IsNil()}
		for i := 0; i < src.Len(); i++ {
			e, err := fromGo(s, *t.Array, src.Index(i), notes)
			if err != nil {
				return out, err
			}
			out.Elems = append(out.Elems, e)
		}
		return out, nil
	case t.MapV != nil:
		if src.Kind() != reflect.Map {
			return val.Value{}, fmt.Errorf("want map for %s, have %s", t, src.Type())
		}
		out := val.Value{Nil: src.IsNil()}
		it := src.MapRange()
		for it.Next() {
			k, err := fromGo(s, schema.Type{Prim: t.MapK}, addressable(it.Key()), notes)
			if err != nil {
				return out, err
			}
			e, err := fromGo(s, *t.MapV, addressable(it.Value()), notes)
			if err != nil {
				return out, err
			}
			out.Keys = append(out.Keys, k)
			out.Vals = append(out.Vals, e)
		}
		// Go's iteration order is random: sort entries so the tree is a function of the map
		sortEntries(&out)
		return out, nil
	case t.Prim != "":
		return primFromGo(t.Prim, src, notes)
	}
	d := s.Lookup(t.Named)
	if d == nil {
		return val.Value{}, fmt.Errorf("unknown type %s", t.Named)
	}
	switch d.Kind {
	case schema.KEnum:
		return intFromGo(src)
	case schema.KStruct:
		src = addressable(src)
		if src.Kind() != reflect.Struct || src.NumField() < len(d.Fields) {
			return val.Value{}, fmt.Errorf("struct %s: Go type %s does not have %d fields", d.Name, src.Type(), len(d.Fields))
		}
		out := val.Value{}
		for i, f := range d.Fields {
			e, err := fromGo(s, f.Type, field(src, byName(src.Type(), f.Name, i)), notes)
			if err != nil {
				return out, err
			}
			out.Elems = append(out.Elems, e)
		}
		return out, nil
	case schema.KMessage:
		src = addressable(src)
		if src.Kind() != reflect.Struct || src.NumField() < len(d.Fields) {
			return val.Value{}, fmt.Errorf("message %s: Go type %s does not have %d fields", d.Name, src.Type(), len(d.Fields))
		}
		out := val.Value{}
		for i, f := range d.Fields {
			p := field(src, byName(src.Type(), f.Name, i))
			if p.Kind() != reflect.Ptr {
				return out, fmt.Errorf("message %s field %s is not a pointer", d.Name, f.Name)
			}
			if p.IsNil() {
				continue
			}
			e, err := fromGo(s, f.Type, p.Elem(), notes)
			if err != nil {
				return out, err
			}
			out.Fields = append(out.Fields, val.MsgField{Index: f.Index, V: e})
		}
		return out, nil
	case schema.KUnion:
		src = addressable(src)
		if src.Kind() != reflect.Struct || src.NumField() < len(d.Branches) {
			return val.Value{}, fmt.Errorf("union %s: Go type %s does not have %d fields", d.Name, src.Type(), len(d.Branches))
		}
		out := val.Value{}
		n := 0
		for i, b := range d.Branches {
			p := field(src, byName(src.Type(), b.Def.Name, i))
			if p.IsNil() {
				continue
			}
			n++
			if n > 1 {
				return out, fmt.Errorf("union %s decoded with more than one member", d.Name)
			}
			e, err := fromGo(s, schema.Type{Named: b.Def.Name}, p.Elem(), notes)
			if err != nil {
				return out, err
			}
			out.Disc = b.Disc
			out.Body = &e
		}
		return out, nil
	}
	return val.Value{}, nil
}

func intFromGo(src reflect.Value) (val.Value, error) {
	switch src.Kind() {
	case reflect.Uint8, reflect.Uint16, reflect.Uint32, reflect.Uint64, reflect.Uint:
		return val.Value{U: src.Uint()}, nil
	case reflect.Int8, reflect.Int16, reflect.Int32, reflect.Int64, reflect.Int:
		bits := uint(src.Type().Bits())
		return val.Value{U: uint64(src.Int()) & (^uint64(0) >> (64 - bits))}, nil
	}
	return val.Value{}, fmt.Errorf("want integer, have %s", src.Type())
}

func primFromGo(p string, src reflect.Value, notes *Notes) (val.Value, error) {
	switch p {
	case "bool":
		if src.Kind() != reflect.Bool {
			return val.Value{}, fmt.Errorf("want bool, have %s", src.Type())
		}
		if src.Bool() {
			return val.Value{U: 1}, nil
		}
		return val.Value{U: 0}, nil
	case "byte", "uint8", "uint16", "int16", "uint32", "int32", "uint64", "int64":
		return intFromGo(src)
	case "float32":
		if src.Kind() != reflect.Float32 {
			return val.Value{}, fmt.Errorf("want float32, have %s", src.Type())
		}
		src = addressable(src)
		return val.Value{U: uint64(*(*uint32)(unsafe.Pointer(src.UnsafeAddr())))}, nil
	case "float64":
		if src.Kind() != reflect.Float64 {
			return val.Value{}, fmt.Errorf("want float64, have %s", src.Type())
		}
		return val.Value{U: math.Float64bits(src.Float())}, nil
	case "string":
		if src.Kind() != reflect.String {
			return val.Value{}, fmt.Errorf("want string, have %s", src.Type())
		}
		return val.Value{B: []byte(src.String())}, nil
	case "guid":
		if src.Kind() != reflect.Array || src.Len() != 16 {
			return val.Value{}, fmt.Errorf("want [16]byte, have %s", src.Type())
		}
		b := make([]byte, 16)
		for i := range b {
			b[i] = byte(src.Index(i).Uint())
		}
		return val.Value{B: b}, nil
	case "date":
		if src.Type() != timeType {
			return val.Value{}, fmt.Errorf("want time.Time, have %s", src.Type())
		}
		src = addressable(src)
		tm := *(*time.Time)(unsafe.Pointer(src.UnsafeAddr()))
		if tm.IsZero() {
			return val.Value{Date: &val.Date{Zero: true}}, nil
		}
		if tm.Location() != time.UTC && notes != nil {
			notes.NonUTCDates++
		}
		return val.Value{Date: &val.Date{Nanos: tm.UnixNano()}}, nil
	}
	return val.Value{}, fmt.Errorf("unknown primitive %s", p)
}

func sortEntries(m *val.Value) {
	n := len(m.Keys)
	idx := make([]int, n)
	for i := range idx {
		idx[i] = i
	}
	// insertion sort by canonical key bytes (maps are small)
	less := func(a, b int) bool { return string(val.KeyBytes(m.Keys[a])) < string(val.KeyBytes(m.Keys[b])) }
	for i := 1; i < n; i++ {
		for j := i; j > 0 && less(idx[j], idx[j-1]); j-- {
			idx[j], idx[j-1] = idx[j-1], idx[j]
		}
	}
	*m = val.Reorder(*m, idx)
}

// GrowShared changes, through memory that a copy of v made by plain assignment still shares
// (slice elements, map values, what pointers point to), the first string it can reach: the
// string gets longer. v must be addressable. It reports whether it found one.
func GrowShared(v reflect.Value) bool {
	switch v.Kind() {
	case reflect.Slice:
		for i := 0; i < v.Len(); i++ {
			if growAny(v.Index(i)) {
				return true
			}
		}
	case reflect.Ptr:
		if !v.IsNil() {
			return growAny(v.Elem())
		}
	case reflect.Map:
		return growMap(v)
	case reflect.Struct:
		if v.Type() == timeType {
			return false
		}
		for i := 0; i < v.NumField(); i++ {
			if GrowShared(field(v, i)) {
				return true
			}
		}
	}
	return false
}

func growMap(v reflect.Value) bool {
	keys := v.MapKeys()
	if len(keys) == 0 {
		return false
	}
	best := 0
	for i := range keys {
		if fmt.Sprint(keys[i]) < fmt.Sprint(keys[best]) {
			best = i
		}
	}
	cur := v.MapIndex(keys[best])
	if !cur.IsValid() {
		return false // a NaN key: not retrievable
	}
	cp := reflect.New(v.Type().Elem()).Elem()
	cp.Set(cur)
	if growAny(cp) {
		v.SetMapIndex(keys[best], cp)
		return true
	}
	return false
}

func growAny(v reflect.Value) bool {
	switch v.Kind() {
	case reflect.String:
		v.SetString(v.String() + "+grown")
		return true
	case reflect.Slice:
		for i := 0; i < v.Len(); i++ {
			if growAny(v.Index(i)) {
				return true
			}
		}
	case reflect.Ptr:
		if !v.IsNil() {
			return growAny(v.Elem())
		}
	case reflect.Map:
		return growMap(v)
	case reflect.Struct:
		if v.Type() == timeType {
			return false
		}
		for i := 0; i < v.NumField(); i++ {
			if growAny(field(v, i)) {
				return true
			}
		}
	}
	return false
}

var dupZone = time.FixedZone("dup", 3600)

// DupDateKeys adds, to every non-empty map keyed by time.Time that v holds (at any depth),
// one entry whose key is the SAME instant as an existing key in another time zone: a
// different Go map key that is the same date on the wire. It returns how many maps grew.
// v must be addressable.
func DupDateKeys(v reflect.Value) int {
	n := 0
	switch v.Kind() {
	case reflect.Ptr:
		if !v.IsNil() {
			n += DupDateKeys(v.Elem())
		}
	case reflect.Slice:
		for i := 0; i < v.Len(); i++ {
			n += DupDateKeys(v.Index(i))
		}
	case reflect.Struct:
		if v.Type() == timeType {
			return 0
		}
		for i := 0; i < v.NumField(); i++ {
			n += DupDateKeys(field(v, i))
		}
	case reflect.Map:
		keys := v.MapKeys()
		// values first (copies, put back)
		for _, k := range keys {
			cur := v.MapIndex(k)
			if !cur.IsValid() {
				continue // a NaN key: not retrievable
			}
			cp := reflect.New(v.Type().Elem()).Elem()
			cp.Set(cur)
			if m := DupDateKeys(cp); m > 0 {
				v.SetMapIndex(k, cp)
				n += m
			}
		}
		if v.Type().Key() == timeType && len(keys) > 0 {
			best := keys[0].Interface().(time.Time)
			for _, k := range keys[1:] {
				if t := k.Interface().(time.Time); t.Before(best) {
					best = t
				}
			}
			v.SetMapIndex(reflect.ValueOf(best.In(dupZone)), v.MapIndex(reflect.ValueOf(best)))
			n++
		}
	}
	return n
}
