// Package instrument rewrites Go source (a scratch copy of 200sc/bebop, or code emitted by
// its generator) so that the simulator owns map iteration order, allocation sizes taken
// from data, loop trip counts, statement-level interleaving and os calls. Rewriting is
// driven by go/types, so it finds whatever the tree currently contains.
package instrument

import (
	"bytes"
	"fmt"
	"go/ast"
	"go/constant"
	"go/format"
	"go/importer"
	"go/parser"
	"go/token"
	"go/types"
	"os"
	"path/filepath"
	"sort"
	"strconv"
	"strings"
)

type Options struct {
	MapOrder bool
	Alloc    bool
	Step     bool
	Yield    bool
	OSShim   bool // os.X -> simos.X
	Globals  bool // emit an accessor listing the addresses of all package-level variables
	Sync     bool // route sync.Mutex/RWMutex/Once and sync/atomic through cooperative wrappers
}

type Stats struct {
	Files     int
	MapRanges int
	Allocs    int
	Steps     int
	Yields    int
	OSCalls   int
	SyncCalls int
	GoStmts   int      // go statements in packages instrumented with yields: goroutines the baton scheduler would not own
	OSLeft    []string // os selectors left untouched (not implemented by simos)
}

func (s *Stats) Add(o Stats) {
	s.Files += o.Files
	s.MapRanges += o.MapRanges
	s.Allocs += o.Allocs
	s.Steps += o.Steps
	s.Yields += o.Yields
	s.OSCalls += o.OSCalls
	s.SyncCalls += o.SyncCalls
	s.GoStmts += o.GoStmts
	s.OSLeft = append(s.OSLeft, o.OSLeft...)
}

const (
	SimrtPath  = "verif/simrt"
	SimrtName  = "_vsimrt"
	SimosPath  = "verif/simos"
	SimosName  = "_vsimos"
	entryIdent = "_ve"
)

// Importer type-checks packages of known module roots from source (non-test files) and
// delegates everything else to the standard "source" importer. One instance caches.
type Importer struct {
	Fset  *token.FileSet
	Roots map[string]string // import path prefix -> directory
	std   types.ImporterFrom
	cache map[string]*types.Package
	busy  map[string]bool
}

func NewImporter(fset *token.FileSet, roots map[string]string) *Importer {
	return &Importer{
		Fset:  fset,
		Roots: roots,
		std:   importer.ForCompiler(fset, "source", nil).(types.ImporterFrom),
		cache: map[string]*types.Package{},
		busy:  map[string]bool{},
	}
}

func (im *Importer) Import(path string) (*types.Package, error) {
	return im.ImportFrom(path, "", 0)
}

func (im *Importer) dirFor(path string) (string, bool) {
	best := ""
	for p := range im.Roots {
		if (path == p || strings.HasPrefix(path, p+"/")) && len(p) > len(best) {
			best = p
		}
	}
	if best == "" {
		return "", false
	}
	return filepath.Join(im.Roots[best], strings.TrimPrefix(strings.TrimPrefix(path, best), "/")), true
}

func (im *Importer) ImportFrom(path, dir string, mode types.ImportMode) (*types.Package, error) {
	if p, ok := im.cache[path]; ok {
		return p, nil
	}
	d, ok := im.dirFor(path)
	if !ok {
		if path == "unsafe" {
			return types.Unsafe, nil
		}
		return im.std.ImportFrom(path, dir, mode)
	}
	if im.busy[path] {
		return nil, fmt.Errorf("import cycle through %s", path)
	}
	im.busy[path] = true
	defer delete(im.busy, path)
	files, _, err := ParseDir(im.Fset, d)
	if err != nil {
		return nil, err
	}
	conf := types.Config{Importer: im, Sizes: types.SizesFor("gc", "amd64"), Error: func(error) {}}
	pkg, _ := conf.Check(path, im.Fset, files, nil)
	if pkg == nil {
		return nil, fmt.Errorf("cannot type-check %s", path)
	}
	im.cache[path] = pkg
	return pkg, nil
}

// ParseDir parses the non-test .go files of dir (sorted by name).
func ParseDir(fset *token.FileSet, dir string) ([]*ast.File, []string, error) {
	ents, err := os.ReadDir(dir)
	if err != nil {
		return nil, nil, err
	}
	var names []string
	for _, e := range ents {
		n := e.Name()
		if e.IsDir() || !strings.HasSuffix(n, ".go") || strings.HasSuffix(n, "_test.go") {
			continue
		}
		names = append(names, n)
	}
	sort.Strings(names)
	var files []*ast.File
	var paths []string
	for _, n := range names {
		p := filepath.Join(dir, n)
		f, err := parser.ParseFile(fset, p, nil, parser.ParseComments)
		if err != nil {
			return nil, nil, err
		}
		files = append(files, f)
		paths = append(paths, p)
	}
	return files, paths, nil
}

// Dir instruments the package in dir in place. importPath is only used for messages.
// A package that does not type-check is rewritten as far as type information allows
// when lenient is set (generated code that will later fail to compile); otherwise an
// error is returned.
func Dir(dir, importPath string, opts Options, im *Importer, lenient bool) (Stats, error) {
	var st Stats
	fset := im.Fset
	files, paths, err := ParseDir(fset, dir)
	if err != nil {
		return st, err
	}
	if len(files) == 0 {
		return st, nil
	}
	info := &types.Info{
		Types: map[ast.Expr]types.TypeAndValue{},
		Uses:  map[*ast.Ident]types.Object{},
		Defs:  map[*ast.Ident]types.Object{},
	}
	var firstErr error
	conf := types.Config{Importer: im, Sizes: types.SizesFor("gc", "amd64"), Error: func(e error) {
		if firstErr == nil {
			firstErr = e
		}
	}}
	conf.Check(importPath, fset, files, info)
	if firstErr != nil && !lenient {
		return st, fmt.Errorf("type-check %s: %w", importPath, firstErr)
	}
	rw := &rewriter{info: info, opts: opts, sizes: conf.Sizes, fset: fset}
	for i, f := range files {
		rw.file(f)
		if rw.touchedSimrt {
			addImport(f, SimrtName, SimrtPath)
		}
		if rw.touchedSimos {
			addImport(f, SimosName, SimosPath)
			if !rw.osStillUsed {
				removeImport(f, "os")
			}
		}
		if rw.touchedSimrt || rw.touchedSimos {
			stripComments(f)
			var buf bytes.Buffer
			if err := format.Node(&buf, fset, f); err != nil {
				return st, fmt.Errorf("print %s: %w", paths[i], err)
			}
			if err := os.WriteFile(paths[i], buf.Bytes(), 0o644); err != nil {
				return st, err
			}
		}
		st.Files++
	}
	st.MapRanges, st.Allocs, st.Steps, st.Yields, st.OSCalls = rw.nMap, rw.nAlloc, rw.nStep, rw.nYield, rw.nOS
	st.OSLeft = rw.osLeft
	st.SyncCalls = rw.nSync
	st.GoStmts = rw.nGo
	if opts.Globals {
		if err := writeGlobals(dir, files, info); err != nil {
			return st, err
		}
	}
	return st, nil
}

// writeGlobals emits zz_verif_globals.go: VerifGlobals() returns the address of every
// package-level variable, so the simulator can fingerprint package state.
func writeGlobals(dir string, files []*ast.File, info *types.Info) error {
	var names []string
	for _, f := range files {
		for _, d := range f.Decls {
			gd, ok := d.(*ast.GenDecl)
			if !ok || gd.Tok != token.VAR {
				continue
			}
			for _, sp := range gd.Specs {
				for _, id := range sp.(*ast.ValueSpec).Names {
					if id.Name != "_" {
						names = append(names, id.Name)
					}
				}
			}
		}
	}
	sort.Strings(names)
	var b strings.Builder
	fmt.Fprintf(&b, "package %s\n\n// VerifGlobals is added by the verification instrumenter.\nfunc VerifGlobals() map[string]interface{} {\n\treturn map[string]interface{}{\n", files[0].Name.Name)
	for _, n := range names {
		fmt.Fprintf(&b, "\t\t%q: &%s,\n", n, n)
	}
	b.WriteString("\t}\n}\n")
	return os.WriteFile(filepath.Join(dir, "zz_verif_globals.go"), []byte(b.String()), 0o644)
}

type rewriter struct {
	info  *types.Info
	opts  Options
	sizes types.Sizes
	fset  *token.FileSet

	touchedSimrt bool
	touchedSimos bool
	osStillUsed  bool
	nMap, nAlloc int
	nStep        int
	nYield, nOS  int
	nSync        int
	nGo          int
	osLeft       []string
	veCounter    int
}

func (rw *rewriter) file(f *ast.File) {
	rw.touchedSimrt, rw.touchedSimos, rw.osStillUsed = false, false, false
	if rw.opts.OSShim {
		rw.osShim(f)
	}
	for _, d := range f.Decls {
		fd, ok := d.(*ast.FuncDecl)
		if !ok || fd.Body == nil {
			// package-level var initialisers may contain func literals
			if gd, ok := d.(*ast.GenDecl); ok {
				ast.Inspect(gd, func(n ast.Node) bool {
					if fl, ok := n.(*ast.FuncLit); ok {
						rw.block(fl.Body)
						return false
					}
					return true
				})
			}
			continue
		}
		rw.block(fd.Body)
	}
}

func sel(pkg, name string) ast.Expr {
	return &ast.SelectorExpr{X: ast.NewIdent(pkg), Sel: ast.NewIdent(name)}
}

func callStmt(pkg, name string, args ...ast.Expr) ast.Stmt {
	return &ast.ExprStmt{X: &ast.CallExpr{Fun: sel(pkg, name), Args: args}}
}

func (rw *rewriter) block(b *ast.BlockStmt) {
	if b == nil {
		return
	}
	b.List = rw.stmts(b.List)
}

// stmts rewrites a statement list, inserting yields before every statement.
func (rw *rewriter) stmts(list []ast.Stmt) []ast.Stmt {
	out := make([]ast.Stmt, 0, len(list)*2)
	for _, s := range list {
		rw.stmt(s)
		if _, isGo := s.(*ast.GoStmt); isGo && rw.opts.Yield {
			rw.nGo++
		}
		if rw.opts.Yield {
			rw.nYield++
			rw.touchedSimrt = true
			out = append(out, callStmt(SimrtName, "Yield", &ast.BasicLit{Kind: token.INT, Value: strconv.Itoa(rw.nYield)}))
		}
		out = append(out, s)
	}
	return out
}

func (rw *rewriter) stmt(s ast.Stmt) {
	switch s := s.(type) {
	case *ast.BlockStmt:
		rw.block(s)
	case *ast.IfStmt:
		rw.exprsIn(s.Init)
		rw.expr(&s.Cond)
		rw.block(s.Body)
		if s.Else != nil {
			rw.stmt(s.Else)
		}
	case *ast.ForStmt:
		rw.exprsIn(s.Init)
		if s.Cond != nil {
			rw.expr(&s.Cond)
		}
		rw.exprsIn(s.Post)
		rw.block(s.Body)
		rw.addStep(s.Body)
	case *ast.RangeStmt:
		rw.expr(&s.X)
		rw.block(s.Body)
		rw.mapRange(s)
		rw.addStep(s.Body)
	case *ast.SwitchStmt:
		rw.exprsIn(s.Init)
		if s.Tag != nil {
			rw.expr(&s.Tag)
		}
		rw.clauses(s.Body)
	case *ast.TypeSwitchStmt:
		rw.exprsIn(s.Init)
		rw.exprsIn(s.Assign)
		rw.clauses(s.Body)
	case *ast.SelectStmt:
		rw.clauses(s.Body)
	case *ast.LabeledStmt:
		rw.stmt(s.Stmt)
	default:
		rw.exprsIn(s)
	}
}

func (rw *rewriter) clauses(b *ast.BlockStmt) {
	for _, c := range b.List {
		switch c := c.(type) {
		case *ast.CaseClause:
			for i := range c.List {
				rw.expr(&c.List[i])
			}
			c.Body = rw.stmts(c.Body)
		case *ast.CommClause:
			c.Body = rw.stmts(c.Body)
		}
	}
}

func (rw *rewriter) addStep(body *ast.BlockStmt) {
	if !rw.opts.Step || body == nil {
		return
	}
	rw.nStep++
	rw.touchedSimrt = true
	body.List = append([]ast.Stmt{callStmt(SimrtName, "Step")}, body.List...)
}

// exprsIn rewrites expressions inside a simple statement (and descends into func literals).
func (rw *rewriter) exprsIn(s ast.Stmt) {
	if s == nil {
		return
	}
	ast.Inspect(s, func(n ast.Node) bool {
		switch n := n.(type) {
		case *ast.FuncLit:
			rw.block(n.Body)
			return false
		case *ast.CallExpr:
			rw.call(n)
		}
		return true
	})
}

func (rw *rewriter) expr(e *ast.Expr) {
	if e == nil || *e == nil {
		return
	}
	ast.Inspect(*e, func(n ast.Node) bool {
		switch n := n.(type) {
		case *ast.FuncLit:
			rw.block(n.Body)
			return false
		case *ast.CallExpr:
			rw.call(n)
		}
		return true
	})
}

// syncCall rewrites x.Lock() etc. on sync types and atomic.F(&v, ...) into cooperative
// simrt calls: simrt.Lock(&x) ... so that a descheduled lock holder cannot deadlock the
// baton scheduler and the race rules see the synchronisation.
func (rw *rewriter) syncCall(c *ast.CallExpr) {
	se, ok := c.Fun.(*ast.SelectorExpr)
	if !ok {
		return
	}
	// sync/atomic package functions
	if x, ok := se.X.(*ast.Ident); ok {
		if pn, ok := rw.info.Uses[x].(*types.PkgName); ok && pn.Imported().Path() == "sync/atomic" && len(c.Args) > 0 {
			rw.nSync++
			rw.touchedSimrt = true
			// evaluate the original call, but tell the simulator which address is atomic
			c.Args[0] = &ast.CallExpr{Fun: sel(SimrtName, "AtomicAddr"), Args: []ast.Expr{c.Args[0]}}
			return
		}
	}
	t := rw.info.TypeOf(se.X)
	if t == nil {
		return
	}
	if p, ok := t.(*types.Pointer); ok {
		t = p.Elem()
	}
	named, ok := t.(*types.Named)
	if !ok || named.Obj().Pkg() == nil || named.Obj().Pkg().Path() != "sync" {
		return
	}
	var fn string
	switch named.Obj().Name() + "." + se.Sel.Name {
	case "Mutex.Lock":
		fn = "MutexLock"
	case "Mutex.Unlock":
		fn = "MutexUnlock"
	case "RWMutex.Lock":
		fn = "RWLock"
	case "RWMutex.Unlock":
		fn = "RWUnlock"
	case "RWMutex.RLock":
		fn = "RWRLock"
	case "RWMutex.RUnlock":
		fn = "RWRUnlock"
	case "Once.Do":
		fn = "OnceDo"
	case "Pool.Get":
		fn = "PoolGet"
	case "Pool.Put":
		fn = "PoolPut"
	default:
		return
	}
	recv := se.X
	if _, isPtr := rw.info.TypeOf(se.X).(*types.Pointer); !isPtr {
		recv = &ast.UnaryExpr{Op: token.AND, X: se.X}
	}
	c.Fun = sel(SimrtName, fn)
	c.Args = append([]ast.Expr{recv}, c.Args...)
	rw.nSync++
	rw.touchedSimrt = true
}

func (rw *rewriter) call(c *ast.CallExpr) {
	if rw.opts.Sync {
		rw.syncCall(c)
	}
	if !rw.opts.Alloc {
		return
	}
	id, ok := c.Fun.(*ast.Ident)
	if !ok || id.Name != "make" || len(c.Args) < 2 {
		return
	}
	if obj, ok := rw.info.Uses[id]; ok {
		if _, isBuiltin := obj.(*types.Builtin); !isBuiltin {
			return
		}
	}
	t := rw.info.TypeOf(c.Args[0])
	if t == nil {
		return
	}
	var size int64
	switch u := t.Underlying().(type) {
	case *types.Slice:
		size = rw.sizeof(u.Elem())
	case *types.Map:
		size = rw.sizeof(u.Key()) + rw.sizeof(u.Elem()) + 8
	default:
		return
	}
	idx := len(c.Args) - 1 // capacity if given, else length
	if tv, ok := rw.info.Types[c.Args[idx]]; ok && tv.Value != nil {
		// a constant: small fixed buffers are nobody's concern, but a fixed preallocation of
		// kilobytes made on every turn of a loop is (64 KiB per turn of a runaway loop cost
		// minutes before the step budget ended it)
		if v, exact := constant.Int64Val(constant.ToInt(tv.Value)); !exact || v*size < 4096 {
			return
		}
	}
	// already wrapped?
	if ce, ok := c.Args[idx].(*ast.CallExpr); ok {
		if se, ok := ce.Fun.(*ast.SelectorExpr); ok {
			if x, ok := se.X.(*ast.Ident); ok && x.Name == SimrtName {
				return
			}
		}
	}
	rw.nAlloc++
	rw.touchedSimrt = true
	c.Args[idx] = &ast.CallExpr{Fun: sel(SimrtName, "Alloc"), Args: []ast.Expr{
		c.Args[idx], &ast.BasicLit{Kind: token.INT, Value: strconv.FormatInt(size, 10)},
	}}
}

func (rw *rewriter) sizeof(t types.Type) (sz int64) {
	defer func() {
		if recover() != nil {
			sz = 8
		}
	}()
	sz = rw.sizes.Sizeof(t)
	if sz <= 0 {
		sz = 1
	}
	return sz
}

func isBlank(e ast.Expr) bool {
	id, ok := e.(*ast.Ident)
	return ok && id.Name == "_"
}

func (rw *rewriter) mapRange(s *ast.RangeStmt) {
	if !rw.opts.MapOrder {
		return
	}
	t := rw.info.TypeOf(s.X)
	if t == nil {
		return
	}
	if _, ok := t.Underlying().(*types.Map); !ok {
		return
	}
	useK := s.Key != nil && !isBlank(s.Key)
	useV := s.Value != nil && !isBlank(s.Value)
	if !useK && !useV {
		return // order is unobservable
	}
	rw.veCounter++
	ve := entryIdent + strconv.Itoa(rw.veCounter)
	var lhs, rhs []ast.Expr
	if useK {
		lhs = append(lhs, s.Key)
		rhs = append(rhs, sel(ve, "K"))
	}
	if useV {
		lhs = append(lhs, s.Value)
		rhs = append(rhs, sel(ve, "V"))
	}
	assign := &ast.AssignStmt{Lhs: lhs, Tok: s.Tok, Rhs: rhs}
	s.Body.List = append([]ast.Stmt{assign}, s.Body.List...)
	s.X = &ast.CallExpr{Fun: sel(SimrtName, "MapEntries"), Args: []ast.Expr{s.X}}
	s.Key = ast.NewIdent("_")
	s.Value = ast.NewIdent(ve)
	s.Tok = token.DEFINE
	rw.nMap++
	rw.touchedSimrt = true
}

// ---------------------------------------------------------------------------------
// os shim

// SimosFuncs is the set of package-level os identifiers simos provides.
var SimosFuncs = map[string]bool{
	"Open": true, "OpenFile": true, "Create": true, "CreateTemp": true, "ReadFile": true,
	"WriteFile": true, "Rename": true, "Remove": true, "RemoveAll": true, "Stat": true, "Lstat": true,
	"ReadDir": true, "Mkdir": true, "MkdirAll": true, "MkdirTemp": true, "Chmod": true, "Truncate": true,
	"Getwd": true, "File": true, "Exit": true, "Link": true, "Symlink": true, "Chtimes": true,
}

func (rw *rewriter) osShim(f *ast.File) {
	ast.Inspect(f, func(n ast.Node) bool {
		se, ok := n.(*ast.SelectorExpr)
		if !ok {
			return true
		}
		x, ok := se.X.(*ast.Ident)
		if !ok {
			return true
		}
		pn, ok := rw.info.Uses[x].(*types.PkgName)
		if !ok || pn.Imported().Path() != "os" {
			return true
		}
		if SimosFuncs[se.Sel.Name] {
			x.Name = SimosName
			rw.nOS++
			rw.touchedSimos = true
		} else {
			rw.osStillUsed = true
			rw.osLeft = append(rw.osLeft, se.Sel.Name)
		}
		return true
	})
}

// ---------------------------------------------------------------------------------
// imports and printing helpers

func addImport(f *ast.File, name, path string) {
	for _, im := range f.Imports {
		if im.Path.Value == strconv.Quote(path) {
			return
		}
	}
	spec := &ast.ImportSpec{Name: ast.NewIdent(name), Path: &ast.BasicLit{Kind: token.STRING, Value: strconv.Quote(path)}}
	f.Imports = append(f.Imports, spec)
	gd := &ast.GenDecl{Tok: token.IMPORT, Specs: []ast.Spec{spec}}
	f.Decls = append([]ast.Decl{gd}, f.Decls...)
}

func removeImport(f *ast.File, path string) {
	q := strconv.Quote(path)
	for _, d := range f.Decls {
		gd, ok := d.(*ast.GenDecl)
		if !ok || gd.Tok != token.IMPORT {
			continue
		}
		specs := gd.Specs[:0]
		for _, s := range gd.Specs {
			if is := s.(*ast.ImportSpec); is.Path.Value == q && is.Name == nil {
				continue
			}
			specs = append(specs, s)
		}
		gd.Specs = specs
	}
	// drop now-empty import decls
	decls := f.Decls[:0]
	for _, d := range f.Decls {
		if gd, ok := d.(*ast.GenDecl); ok && gd.Tok == token.IMPORT && len(gd.Specs) == 0 {
			continue
		}
		decls = append(decls, d)
	}
	f.Decls = decls
}

// stripComments drops every comment after the package clause: positions of inserted
// nodes are synthetic, and a misplaced comment must never be able to change code.
func stripComments(f *ast.File) {
	kept := f.Comments[:0]
	for _, cg := range f.Comments {
		if cg.End() < f.Package {
			kept = append(kept, cg)
		}
	}
	f.Comments = kept
	ast.Inspect(f, func(n ast.Node) bool {
		switch n := n.(type) {
		case *ast.Field:
			n.Doc, n.Comment = nil, nil
		case *ast.GenDecl:
			n.Doc = nil
		case *ast.FuncDecl:
			n.Doc = nil
		case *ast.ValueSpec:
			n.Doc, n.Comment = nil, nil
		case *ast.TypeSpec:
			n.Doc, n.Comment = nil, nil
		case *ast.ImportSpec:
			n.Doc, n.Comment = nil, nil
		}
		return true
	})
}
