// Package simnet is the simulated byte link between a sending and a receiving node: a
// FIFO of bytes delivered to the receiver under an explicit chunk schedule and an explicit
// fault trace, and a writer that fails at chosen calls or byte offsets. Everything that
// decides behaviour is plain data, so a (schedule, faults) pair replays exactly.
package simnet

import (
	"context"
	"errors"
	"fmt"
	"io"
	"os"
	"syscall"

	"verif/simrt"
)

// Error menu.
var (
	ErrReset  = errors.New("simnet: connection reset by peer")
	ErrCustom = errors.New("simnet: injected failure")
)

// timeoutError is what a net.Conn returns when a deadline passes: Timeout() and
// Temporary() are both true, so code that retries "temporary" failures meets it.
type timeoutError struct{}

func (timeoutError) Error() string   { return "simnet: i/o timeout" }
func (timeoutError) Timeout() bool   { return true }
func (timeoutError) Temporary() bool { return true }

func ErrorByName(n string) error {
	switch n {
	case "eagain":
		return syscall.EAGAIN
	case "eintr-wrapped":
		return &os.PathError{Op: "write", Path: "|1", Err: syscall.EINTR}
	case "timeout":
		return timeoutError{}
	case "deadline":
		return fmt.Errorf("simnet: %w", os.ErrDeadlineExceeded)
	case "short-write":
		return io.ErrShortWrite
	case "no-progress":
		return io.ErrNoProgress
	case "canceled":
		return context.Canceled
	case "uncomparable":
		return uncomparable{"device error", "retry failed"}
	case "unexpected-eof":
		return io.ErrUnexpectedEOF
	case "closed-pipe":
		return io.ErrClosedPipe
	case "reset":
		return ErrReset
	case "wrapped-eof":
		return fmt.Errorf("simnet: wrapped: %w", io.EOF)
	case "eof":
		return io.EOF
	}
	return ErrCustom
}

// TemporaryNames are error values a caller may be tempted to treat as retryable
// (Temporary()/Timeout() true, EINTR, deadlines) or that the io package itself defines.
var TemporaryNames = []string{"eagain", "eintr-wrapped", "timeout", "deadline", "short-write", "no-progress", "canceled", "uncomparable"}

var ErrorNames = append([]string{"unexpected-eof", "closed-pipe", "reset", "custom", "wrapped-eof"}, TemporaryNames...)

// ReadErrorNames adds a clean io.EOF in the middle of a record: the stream simply ends.
var ReadErrorNames = append([]string{"unexpected-eof", "closed-pipe", "reset", "custom", "wrapped-eof", "eof"}, TemporaryNames...)

// WriteErrorNames adds io.EOF itself: for a writer it is just another error value.
var WriteErrorNames = append([]string{"unexpected-eof", "closed-pipe", "reset", "custom", "wrapped-eof", "eof"}, TemporaryNames...)

// Schedule says how many bytes each successive Read may return. Chunks[i] bounds the
// i-th Read (0 = a (0,nil) stall); afterwards every Read is bounded by Repeat (0 = no
// bound: as much as asked and available).
type Schedule struct {
	Chunks []int `json:"chunks,omitempty"`
	Repeat int   `json:"repeat,omitempty"`
	// EOFWithData makes the read that delivers the last byte also return io.EOF.
	EOFWithData bool   `json:"eof_with_data,omitempty"`
	Name        string `json:"name,omitempty"`
}

// ReadFault: bytes [0,At) are delivered; byte At never is (unless Transient).
type ReadFault struct {
	At        int    `json:"at"`
	Err       string `json:"err"`               // name from the error menu; "eof" = clean truncation
	Partial   bool   `json:"partial,omitempty"` // delivered together with the last bytes before At: (n>0, err)
	Transient bool   `json:"transient,omitempty"`
}

// StallLimit is the number of consecutive empty reads after which a stalled link gives up on
// its caller.
const StallLimit = 50000

// Link is the receiving side: an io.Reader over data.
type Link struct {
	Data  []byte
	Sched Schedule
	Fault *ReadFault

	Pos         int // bytes delivered so far
	Reads       int
	Stalls      int
	PostEOF     int  // reads issued after EOF / permanent error was returned
	ErrReturned bool // some Read returned a non-nil, non-EOF error
	EOFReturned bool
	FaultFired  bool
	faultDone   bool
	LastErr     error
	ShortReads  int // reads that returned fewer bytes than asked while more were pending
	// Hook, when set, runs at the start of every Read with the 1-based call number: whatever
	// it does happens "while this Read is in progress" (another caller running meanwhile)
	Hook     func(call int)
	MaxAsk   int
	SeekPast int // bytes a Seek went beyond the end of the data
}

func NewLink(data []byte, sched Schedule, fault *ReadFault) *Link {
	return &Link{Data: data, Sched: sched, Fault: fault}
}

func (l *Link) limit() int {
	end := len(l.Data)
	if l.Fault != nil && !l.faultDone && l.Fault.At < end {
		end = l.Fault.At
	}
	return end
}

// Deliverable is the number of bytes the link will hand out before it ends or fails.
func (l *Link) Deliverable() int { return l.limit() }

func (l *Link) Read(p []byte) (int, error) {
	idx := l.Reads
	l.Reads++
	if l.Hook != nil {
		l.Hook(idx + 1)
	}
	if len(p) > l.MaxAsk {
		l.MaxAsk = len(p)
	}
	if len(p) == 0 {
		return 0, nil
	}
	if l.EOFReturned || (l.ErrReturned && l.Fault != nil && !l.Fault.Transient) {
		l.PostEOF++
		if l.LastErr != nil {
			return 0, l.LastErr
		}
		return 0, io.EOF
	}
	bound := l.Sched.Repeat
	if idx < len(l.Sched.Chunks) {
		bound = l.Sched.Chunks[idx]
		if bound == 0 {
			l.Stalls++
			return 0, nil
		}
	}
	end := l.limit()
	avail := end - l.Pos
	if avail < 0 {
		avail = 0 // a Seek went past the fault position: nothing more is delivered
	}
	n := len(p)
	if bound > 0 && n > bound {
		n = bound
	}
	if n > avail {
		n = avail
	}
	if n < len(p) && n < avail+0 && n > 0 && l.Pos+n < end {
		l.ShortReads++
	}
	copy(p, l.Data[l.Pos:l.Pos+n])
	l.Pos += n
	atFault := l.Fault != nil && !l.faultDone && l.Pos >= l.Fault.At && l.Fault.At <= len(l.Data)
	if atFault && l.Fault.Err == "stall" {
		// the stream neither ends nor fails: from here on every Read returns (0, nil). A
		// caller that keeps asking is stopped after StallLimit such reads ("hang")
		if n > 0 {
			return n, nil
		}
		l.FaultFired = true
		l.Stalls++
		if l.Stalls > StallLimit {
			panic(&simrt.Sentinel{Kind: "hang", Value: int64(l.Stalls), Limit: StallLimit})
		}
		return 0, nil
	}
	if atFault && l.Fault.Transient && l.Fault.Partial && n == len(p) && n > 0 {
		// a failure that goes away again must not arrive together with the LAST byte a request
		// asked for (io.ReadFull rightly drops such an error and nobody would ever see it):
		// it is delivered with strictly fewer bytes than asked, or bare on the next call
		return n, nil
	}
	if atFault && (n == 0 || l.Fault.Partial) {
		// deliver the failure now
		err := ErrorByName(l.Fault.Err)
		l.FaultFired = true
		if l.Fault.Transient {
			l.faultDone = true
		}
		if err == io.EOF {
			l.EOFReturned = true
		} else {
			l.ErrReturned = true
		}
		l.LastErr = err
		return n, err
	}
	if l.Pos == len(l.Data) && (l.Fault == nil || l.faultDone || l.Fault.At > len(l.Data)) {
		if n == 0 || l.Sched.EOFWithData {
			l.EOFReturned = true
			l.LastErr = io.EOF
			return n, io.EOF
		}
	}
	return n, nil
}

// ByteReaderLink adds ReadByte and WriteTo, as many real readers do.
type ByteReaderLink struct{ *Link }

func (b ByteReaderLink) ReadByte() (byte, error) {
	var p [1]byte
	for {
		n, err := b.Link.Read(p[:])
		if n == 1 {
			return p[0], nil
		}
		if err != nil {
			return 0, err
		}
	}
}

// WriteFault fails the writer at a Write call index or at a byte offset.
type WriteFault struct {
	Call      int    `json:"call"`           // fail this call (0-based); -1 = use Byte
	Byte      int    `json:"byte,omitempty"` // fail the call that would write this byte offset
	Err       string `json:"err"`
	Partial   int    `json:"partial,omitempty"` // bytes of the failing call that are written anyway
	Transient bool   `json:"transient,omitempty"`
}

// Sink is the sending side: an io.Writer that logs call boundaries.
type Sink struct {
	Buf        []byte
	Calls      []int // size of each successful (or partial) write
	Fault      *WriteFault
	FaultFired bool
	faultDone  bool
	ErrCount   int
	AfterErr   int // writes attempted after a permanent error was returned
	ZeroWrites int
	// Hook, when set, runs at the start of every Write with the 1-based call number:
	// whatever it does happens "while this Write is in progress" (another caller running)
	Hook func(call int)
}

func NewSink(f *WriteFault) *Sink { return &Sink{Fault: f} }

func (s *Sink) Write(p []byte) (int, error) {
	call := len(s.Calls)
	if s.Hook != nil {
		s.Hook(call + 1)
	}
	if len(p) == 0 {
		s.ZeroWrites++
	}
	if s.Fault != nil && s.FaultFired && !s.Fault.Transient {
		s.AfterErr++
		s.ErrCount++
		s.Calls = append(s.Calls, 0)
		return 0, ErrorByName(s.Fault.Err)
	}
	if s.Fault != nil && !s.faultDone {
		hit := false
		if s.Fault.Call >= 0 {
			hit = call == s.Fault.Call
		} else {
			hit = s.Fault.Byte >= len(s.Buf) && s.Fault.Byte < len(s.Buf)+len(p)
		}
		if hit {
			n := s.Fault.Partial
			if s.Fault.Call < 0 {
				n = s.Fault.Byte - len(s.Buf)
			}
			if n >= len(p) {
				n = len(p) - 1
			}
			if n < 0 {
				n = 0
			}
			s.Buf = append(s.Buf, p[:n]...)
			s.Calls = append(s.Calls, n)
			s.FaultFired = true
			s.faultDone = true
			s.ErrCount++
			return n, ErrorByName(s.Fault.Err)
		}
	}
	s.Buf = append(s.Buf, p...)
	s.Calls = append(s.Calls, len(p))
	return len(p), nil
}

// FatLink is a Link that also offers every optional reader capability the standard
// library knows (io.Seeker, io.ReaderAt, io.WriterTo, io.ByteScanner): code that
// type-asserts its reader for a fast path meets it here. Seeking moves Pos; all data
// movement still honours the fault trace.
type FatLink struct {
	*Link
	lastByte int
	Seeks    int
	WriteTos int
}

func NewFatLink(l *Link) *FatLink { return &FatLink{Link: l, lastByte: -1} }

func (f *FatLink) ReadByte() (byte, error) {
	var p [1]byte
	for {
		n, err := f.Link.Read(p[:])
		if n == 1 {
			f.lastByte = int(p[0])
			return p[0], nil
		}
		if err != nil {
			return 0, err
		}
	}
}

func (f *FatLink) UnreadByte() error {
	if f.lastByte < 0 || f.Pos == 0 {
		return errors.New("simnet: invalid UnreadByte")
	}
	f.Pos--
	f.lastByte = -1
	return nil
}

func (f *FatLink) Seek(offset int64, whence int) (int64, error) {
	f.Seeks++
	var abs int64
	switch whence {
	case io.SeekStart:
		abs = offset
	case io.SeekCurrent:
		abs = int64(f.Pos) + offset
	case io.SeekEnd:
		abs = int64(len(f.Data)) + offset
	default:
		return 0, errors.New("simnet: invalid whence")
	}
	if abs < 0 {
		return 0, errors.New("simnet: negative position")
	}
	// like a file, seeking past the end is allowed; reads there return EOF
	if abs > int64(len(f.Data)) {
		f.Pos = len(f.Data)
		f.SeekPast += int(abs) - len(f.Data)
		return abs, nil
	}
	f.Pos = int(abs)
	return abs, nil
}

func (f *FatLink) ReadAt(p []byte, off int64) (int, error) {
	if off >= int64(len(f.Data)) {
		return 0, io.EOF
	}
	n := copy(p, f.Data[off:])
	if n < len(p) {
		return n, io.EOF
	}
	return n, nil
}

func (f *FatLink) WriteTo(w io.Writer) (int64, error) {
	f.WriteTos++
	var total int64
	buf := make([]byte, 512)
	for {
		n, err := f.Link.Read(buf)
		if n > 0 {
			m, werr := w.Write(buf[:n])
			total += int64(m)
			if werr != nil {
				return total, werr
			}
		}
		if err == io.EOF {
			return total, nil
		}
		if err != nil {
			return total, err
		}
	}
}

// FileSink behaves like a file opened for writing: an io.WriteSeeker. A Write lands at the
// current offset (overwriting what is there, zero-filling a gap) and moves the offset.
// With Append set it behaves like a file opened with O_APPEND: Seek moves and reports the
// offset, but every Write goes to the end of the file.
type FileSink struct {
	*Sink
	Off    int
	Append bool
	Seeks  int
}

func (f *FileSink) Write(p []byte) (int, error) {
	before := len(f.Sink.Buf)
	n, err := f.Sink.Write(p) // call counting and the fault trace live there
	if f.Append || f.Off == before {
		f.Off = len(f.Sink.Buf)
		return n, err
	}
	written := append([]byte(nil), f.Sink.Buf[before:before+n]...)
	f.Sink.Buf = f.Sink.Buf[:before]
	end := f.Off + len(written)
	for len(f.Sink.Buf) < f.Off {
		f.Sink.Buf = append(f.Sink.Buf, 0)
	}
	if end > len(f.Sink.Buf) {
		f.Sink.Buf = append(f.Sink.Buf, make([]byte, end-len(f.Sink.Buf))...)
	}
	copy(f.Sink.Buf[f.Off:], written)
	f.Off = end
	return n, err
}

func (f *FileSink) Seek(off int64, whence int) (int64, error) {
	f.Seeks++
	var base int64
	switch whence {
	case io.SeekStart:
	case io.SeekCurrent:
		base = int64(f.Off)
	case io.SeekEnd:
		base = int64(len(f.Sink.Buf))
	default:
		return 0, errors.New("simnet: invalid whence")
	}
	if base+off < 0 {
		return 0, errors.New("simnet: negative position")
	}
	f.Off = int(base + off)
	return int64(f.Off), nil
}

// uncomparable is an error whose dynamic type cannot be compared with == (a slice, like
// go/scanner.ErrorList): code that compares error VALUES panics on two of them.
type uncomparable []string

func (u uncomparable) Error() string { return "simnet: " + fmt.Sprint([]string(u)) }

// FatSink is a Sink that also implements io.StringWriter, io.ByteWriter and
// io.ReaderFrom; every path counts as Write calls and honours the fault trace.
type FatSink struct{ *Sink }

func (f FatSink) WriteString(s string) (int, error) { return f.Sink.Write([]byte(s)) }
func (f FatSink) WriteByte(b byte) error {
	_, err := f.Sink.Write([]byte{b})
	return err
}
func (f FatSink) ReadFrom(r io.Reader) (int64, error) {
	var total int64
	buf := make([]byte, 512)
	for {
		n, err := r.Read(buf)
		if n > 0 {
			m, werr := f.Sink.Write(buf[:n])
			total += int64(m)
			if werr != nil {
				return total, werr
			}
		}
		if err == io.EOF {
			return total, nil
		}
		if err != nil {
			return total, err
		}
	}
}
