// Package reg is the contract between the registry file the coordinator adds to every
// generated package and the simulation harness. It deliberately does not import
// 200sc/bebop: Record is declared structurally.
package reg

import "io"

// Record has exactly the method set of bebop.Record.
type Record interface {
	MarshalBebop() []byte
	MarshalBebopTo([]byte) int
	UnmarshalBebop([]byte) error
	EncodeBebop(io.Writer) error
	DecodeBebop(io.Reader) error
	Size() int
}

// Type describes one generated record type. Optional members are nil when the
// generator did not emit the corresponding function under the program's options.
type Type struct {
	GoName string
	New    func() Record
	// Make wraps Make<T>(r *iohelp.ErrorReader); the io.Reader is passed through
	// iohelp.NewErrorReader exactly as a caller of the generated API would.
	Make              func(io.Reader) (Record, error)
	MakeFromBytes     func([]byte) (Record, error)
	MustMakeFromBytes func([]byte) Record
	MustUnmarshal     func(Record, []byte)
	// NewFunc is the generated New<T>(fields...) constructor of a readonly struct (a func
	// value, called through reflection), nil otherwise.
	NewFunc interface{}
}
