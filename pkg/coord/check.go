package coord

import (
	"bufio"
	"bytes"
	"crypto/sha256"
	"encoding/json"
	"errors"
	"fmt"
	"os"
	"os/exec"
	"path/filepath"
	"runtime"
	"sort"
	"strconv"
	"strings"
	"sync"
	"sync/atomic"
	"time"

	"verif/pkg/instrument"
	"verif/pkg/prng"
	"verif/pkg/proto"
	"verif/pkg/schema"
)

// Exit codes: 0 held, 1 violation (with VIOLATION line), 2 harness trouble.

type PropCfg struct {
	ID        string
	Level     string // exploration | fault_enumeration
	Rule      string
	RandProgs map[string]int // tier -> number of random programs
	Runs      map[string]int // tier -> runs per seed
	MasksPer  map[string]int // tier -> option masks per program
	Evolve    bool           // build old/new schema pairs
	NoProgs   bool           // the simulation needs no generated programs (iohelp only)
	TextOnly  bool           // programs are used as schema text only; nothing is generated or compiled
	CLI       bool           // build the two command-line tools from the instrumented copy
	RepoInstr map[string]instrument.Options
	Params    map[string]map[string]int
	Seeds     map[string][]uint64
	Assume    []string
	RealStub  map[string][]string
}

var coveringMasks = []int{0, 31, 7, 25, 10, 20, 19, 12}

func tierSeeds(cfg *PropCfg, tier string) []uint64 {
	seeds := cfg.Seeds[tier]
	if len(seeds) == 0 {
		if tier == "thorough" {
			seeds = []uint64{1, 2, 3}
		} else {
			seeds = []uint64{1}
		}
	}
	if s := os.Getenv("VERIF_SEED"); s != "" {
		if v, err := strconv.ParseUint(s, 10, 64); err == nil {
			seeds = append([]uint64{v}, seeds[1:]...)
		} else if v, err := strconv.ParseInt(s, 10, 64); err == nil {
			seeds = append([]uint64{uint64(v)}, seeds[1:]...)
		}
	}
	return seeds
}

func Workers() int {
	n := runtime.NumCPU()
	if n > 16 {
		n = 16
	}
	if s := os.Getenv("VERIF_WORKERS"); s != "" {
		if v, err := strconv.Atoi(s); err == nil && v > 0 {
			n = v
		}
	}
	return n
}

// Outcome accumulates what a check saw, across seeds.
type Outcome struct {
	Prop       string
	Tier       string
	Level      string
	Seeds      []uint64
	Counters   map[string]int64
	States     map[uint64]struct{}
	Samples    []json.RawMessage
	Violations []*proto.Replay // new (not known)
	KnownHit   map[string]*proto.Replay
	Built      []Built
	LogHashes  []string
	RunHashes  map[int]string // run -> log hash (collected when VERIF_RUNLOG is set)
	Instr      instrument.Stats
	Start      time.Time
	BuildSecs  float64
	RunSecs    float64
	Trouble    []string
}

func newOutcome(prop, tier, level string) *Outcome {
	return &Outcome{Prop: prop, Tier: tier, Level: level, Counters: map[string]int64{}, States: map[uint64]struct{}{},
		KnownHit: map[string]*proto.Replay{}, Start: time.Now()}
}

func LoadKnown() ([]proto.KnownFinding, error) {
	b, err := os.ReadFile(filepath.Join(VerifDir(), "known_findings.json"))
	if err != nil {
		if os.IsNotExist(err) {
			return nil, nil
		}
		return nil, err
	}
	var ks []proto.KnownFinding
	if err := json.Unmarshal(b, &ks); err != nil {
		return nil, fmt.Errorf("known_findings.json: %w", err)
	}
	return ks, nil
}

// population draws the programs of one seed.
func population(cfg *PropCfg, tier string, seed uint64) []ProgSpec {
	var specs []ProgSpec
	if cfg.NoProgs {
		return nil
	}
	r := prng.Derive(seed, "population:"+cfg.ID)
	nm := cfg.MasksPer[tier]
	if nm == 0 {
		nm = 2
	}
	add := func(s *schema.Schema, i int) {
		if !cfg.TextOnly {
			// a string constant with a raw line break is accepted by the parser but is
			// emitted verbatim into Go source, which then does not compile: keep those for
			// the text-only simulations
			kept := s.Consts[:0:0]
			for _, c := range s.Consts {
				if !strings.Contains(c.Literal, "\n") {
					kept = append(kept, c)
				}
			}
			s.Consts = kept
		}
		if i%3 == 2 {
			// message fields declared out of index order (same meaning)
			s.DeclSeed = seed*131 + uint64(i) + 1
		}
		id := fmt.Sprintf("p%03d", len(specs))
		masks := map[int]bool{}
		var ms []int
		for k := 0; len(ms) < nm && k < 64; k++ {
			var m int
			switch {
			case nm >= 32:
				m = k
			case k == 0:
				m = coveringMasks[(i+int(seed))%len(coveringMasks)]
			case k == 1:
				m = coveringMasks[(i+int(seed)+3)%len(coveringMasks)]
			default:
				m = r.Intn(32)
			}
			if !masks[m] {
				masks[m] = true
				ms = append(ms, m)
			}
		}
		sort.Ints(ms)
		sp := ProgSpec{ID: id, Schema: s, Bop: s.PrintLayout(schema.Layout{Indent: "    ", Comments: true, Block: i%3 == 1}), Masks: ms}
		if s.HasLib() {
			sp.Bop = s.PrintApp("lib.bop") // informative only: the per-mask files are written at build time
		}
		if cfg.Evolve {
			old := s
			nw := schema.Evolve(old, r.Fork("evolve"))
			if nw != nil {
				sp.Schema, sp.Bop = nw.New, nw.New.Print()
				sp.Old, sp.OldBop = nw.Old, nw.Old.Print()
				if s.HasLib() {
					sp.Bop, sp.OldBop = nw.New.PrintApp("lib.bop"), nw.Old.PrintApp("lib.bop")
				}
			}
		}
		specs = append(specs, sp)
	}
	for i, s := range schema.Core() {
		if cfg.TextOnly && s.HasLib() {
			continue // text-only simulations bring their own import files
		}
		add(s, i)
	}
	for i := 0; i < cfg.RandProgs[tier]; i++ {
		if !cfg.TextOnly && i%5 == 4 {
			add(schema.GenerateWithLib(r.Fork(fmt.Sprint("prog", i)), fmt.Sprintf("randlib%d", i)), i+100)
			continue
		}
		add(schema.Generate(r.Fork(fmt.Sprint("prog", i)), fmt.Sprintf("rand%d", i)), i+100)
	}
	return specs
}

// runShards executes the node over [0,runs) on all workers and folds reports into out.
func runShards(w *Work, node string, batch *proto.Batch, out *Outcome, timeout time.Duration) error {
	bb, _ := json.Marshal(batch)
	batchFile := filepath.Join(w.Dir, fmt.Sprintf("batch-%d.json", batch.Seed))
	if err := os.WriteFile(batchFile, bb, 0o644); err != nil {
		return err
	}
	nw := Workers()
	if nw > batch.Runs {
		nw = batch.Runs
	}
	if nw < 1 {
		nw = 1
	}
	type shardRes struct {
		reports []proto.Report
		err     error
		crash   string
		cur     int
	}
	res := make([]shardRes, nw)
	var wg sync.WaitGroup
	for s := 0; s < nw; s++ {
		wg.Add(1)
		go func(s int) {
			defer wg.Done()
			cur := filepath.Join(w.Dir, fmt.Sprintf("cur-%d-%d", batch.Seed, s))
			args := []string{"-batch", batchFile, "-from", strconv.Itoa(s), "-to", strconv.Itoa(batch.Runs), "-stride", strconv.Itoa(nw), "-cur", cur}
			if os.Getenv("VERIF_RUNLOG") != "" {
				args = append(args, "-runlog")
			}
			reports, stderr, err := runNode(node, args, timeout)
			res[s].reports = reports
			if err != nil {
				res[s].err = err
				res[s].crash = stderr
				res[s].cur = -1
				if b, e := os.ReadFile(cur); e == nil {
					if v, e := strconv.Atoi(strings.TrimSpace(string(b))); e == nil {
						res[s].cur = v
					}
				}
			}
		}(s)
	}
	wg.Wait()
	for s := range res {
		if res[s].err == errWatchdog {
			return fmt.Errorf("shard %d (in run %d): %v", s, res[s].cur, res[s].err)
		}
		if res[s].err != nil {
			// a worker died: re-run the case in flight alone to see whether the code under test kills the process
			if res[s].cur >= 0 {
				_, stderr2, err2 := runNode(node, []string{"-batch", batchFile, "-from", strconv.Itoa(res[s].cur), "-to", strconv.Itoa(res[s].cur + 1)}, timeout)
				if err2 == errWatchdog {
					return fmt.Errorf("shard %d: run %d alone: %v", s, res[s].cur, err2)
				}
				if err2 != nil && strings.HasPrefix(crashLine(stderr2), "panic:") && !strings.Contains(stderr2, "github.com/200sc/bebop") && !strings.Contains(stderr2, "verifh/gen/") {
					// a Go panic whose goroutine never was inside the code under test: the
					// harness's own failure, never a verdict about the repository
					return fmt.Errorf("shard %d: run %d alone: the simulation node panicked outside the code under test:\n%s", s, res[s].cur, clipS(stderr2, 2000))
				}
				if err2 != nil {
					rp := &proto.Replay{Format: "verif-replay/1", Property: batch.Property, Seed: batch.Seed, Run: res[s].cur, Params: batch.Params,
						Scenario:  proto.Scenario{Kind: "rerun"},
						Violation: proto.Violation{Property: batch.Property, Class: "process-crash", Signature: "process-crash|" + crashLine(stderr2), Detail: clipS(stderr2, 1500)}}
					for _, p := range batch.Programs {
						rp.Programs = append(rp.Programs, proto.ReplayProg{ID: p.ID, Bop: p.Bop, Schema: p.Schema, Old: p.Old, OldBop: p.OldBop, Masks: p.Masks})
					}
					out.Violations = append(out.Violations, rp)
					continue
				}
			}
			return fmt.Errorf("simulation node shard %d failed and the failure did not reproduce in isolation: %v\n%s", s, res[s].err, clipS(res[s].crash, 2000))
		}
		for _, rep := range res[s].reports {
			switch rep.Kind {
			case "violation":
				if rep.Replay.Known != "" {
					if _, ok := out.KnownHit[rep.Replay.Known]; !ok {
						out.KnownHit[rep.Replay.Known] = rep.Replay
					}
					continue
				}
				dup := false
				for _, v := range out.Violations {
					if v.Violation.Signature == rep.Replay.Violation.Signature {
						dup = true
					}
				}
				if !dup {
					out.Violations = append(out.Violations, rep.Replay)
				}
			case "summary":
				for k, v := range rep.Counters {
					out.Counters[k] += v
				}
				for _, st := range rep.States {
					out.States[st] = struct{}{}
				}
				if len(out.Samples) < 4 {
					out.Samples = append(out.Samples, rep.Samples...)
				}
				out.LogHashes = append(out.LogHashes, fmt.Sprintf("%d/%d:%s", s, nw, rep.LogHash))
				for _, h := range rep.RunHashes {
					var run int
					var hv string
					if i := strings.IndexByte(h, ':'); i > 0 {
						fmt.Sscan(h[:i], &run)
						hv = h[i+1:]
					}
					if out.RunHashes == nil {
						out.RunHashes = map[int]string{}
					}
					out.RunHashes[run] = hv
				}
			}
		}
	}
	return nil
}

func crashLine(stderr string) string {
	for _, ln := range strings.Split(stderr, "\n") {
		if strings.HasPrefix(ln, "fatal error:") || strings.HasPrefix(ln, "panic:") || strings.HasPrefix(ln, "runtime:") || strings.Contains(ln, "signal:") {
			return strings.TrimSpace(ln)
		}
	}
	return "unknown"
}

func clipS(s string, n int) string {
	if len(s) > n {
		return s[:n] + "..."
	}
	return s
}

func runNode(node string, args []string, timeout time.Duration) ([]proto.Report, string, error) {
	memKB := 12 << 20
	sh := fmt.Sprintf("ulimit -v %d 2>/dev/null; exec \"$0\" \"$@\"", memKB)
	cmd := exec.Command("/bin/sh", append([]string{"-c", sh, node}, args...)...)
	var stderr bytes.Buffer
	cmd.Stderr = &stderr
	cmd.Env = append(os.Environ(), "GOTRACEBACK=single")
	stdout, err := cmd.StdoutPipe()
	if err != nil {
		return nil, "", err
	}
	if err := cmd.Start(); err != nil {
		return nil, "", err
	}
	var timedOut atomic.Bool
	timer := time.AfterFunc(timeout, func() { timedOut.Store(true); cmd.Process.Kill() })
	defer timer.Stop()
	var reports []proto.Report
	sc := bufio.NewScanner(stdout)
	sc.Buffer(make([]byte, 1<<20), 256<<20)
	for sc.Scan() {
		var r proto.Report
		if err := json.Unmarshal(sc.Bytes(), &r); err == nil {
			reports = append(reports, r)
		}
	}
	err = cmd.Wait()
	if timedOut.Load() {
		// the coordinator's own watchdog, not the code under test: hangs of the code under
		// test are decided by the deterministic step budget inside the node
		return reports, stderr.String(), errWatchdog
	}
	return reports, stderr.String(), err
}

var errWatchdog = errors.New("watchdog: the simulation node exceeded its wall-clock limit and was stopped")

// Finish matches known findings, writes replays and evidence, prints the verdict lines
// and returns the exit code.
func (o *Outcome) Finish(cfg *PropCfg, known []proto.KnownFinding, verify func(rp *proto.Replay, file string) (bool, string)) int {
	vd := VerifDir()
	os.MkdirAll(filepath.Join(vd, "replays"), 0o755)
	os.MkdirAll(filepath.Join(vd, "evidence"), 0o755)
	exit := 0
	var violLines []string
	for _, rp := range o.Violations {
		sum := sha256.Sum256([]byte(rp.Violation.Signature))
		file := filepath.Join(vd, "replays", fmt.Sprintf("%s-%x.json", o.Prop, sum[:5]))
		b, _ := json.MarshalIndent(rp, "", " ")
		if err := os.WriteFile(file, b, 0o644); err != nil {
			o.Trouble = append(o.Trouble, err.Error())
			continue
		}
		if verify != nil && rp.Scenario.Kind != "rerun" {
			ok, msg := verify(rp, file)
			if !ok {
				o.Trouble = append(o.Trouble, fmt.Sprintf("violation %q did not replay in a fresh process: %s", rp.Violation.Signature, msg))
				continue
			}
		}
		exit = 1
		violLines = append(violLines, fmt.Sprintf("VIOLATION property=%s replay=%s", o.Prop, file))
		fmt.Printf("  class=%s signature=%s\n  detail=%s\n", rp.Violation.Class, rp.Violation.Signature, rp.Violation.Detail)
	}
	var knownIDs []string
	for id := range o.KnownHit {
		knownIDs = append(knownIDs, id)
	}
	sort.Strings(knownIDs)
	for _, id := range knownIDs {
		for _, k := range known {
			if k.ID == id {
				fmt.Printf("KNOWN-FINDING: property=%s %s [%s; seen %d times]\n", o.Prop, k.What, k.ID, o.Counters["known:"+id])
			}
		}
	}
	if err := o.writeEvidence(cfg, knownIDs); err != nil {
		o.Trouble = append(o.Trouble, "evidence: "+err.Error())
	}
	for _, l := range violLines {
		fmt.Println(l)
	}
	if len(o.Trouble) > 0 {
		for _, t := range o.Trouble {
			fmt.Fprintln(os.Stderr, "verif: trouble:", t)
		}
		if exit == 0 {
			return 2
		}
	}
	if exit == 0 {
		fmt.Printf("OK property=%s tier=%s evaluations=%d distinct=%d seeds=%v wall=%.1fs\n", o.Prop, o.Tier, o.Counters["evaluations"], len(o.States), o.Seeds, time.Since(o.Start).Seconds())
	}
	return exit
}

func (o *Outcome) writeEvidence(cfg *PropCfg, knownIDs []string) error {
	wall := time.Since(o.Start).Seconds()
	cov := map[string]interface{}{}
	evals := o.Counters["evaluations"]
	cov["evaluations"] = evals
	cov["distinct_nontrivial"] = len(o.States)
	cov["rule"] = cfg.Rule
	samples := make([]interface{}, 0, len(o.Samples))
	for _, s := range o.Samples {
		samples = append(samples, s)
	}
	cov["samples"] = samples
	cov["runs"] = o.Counters["runs"]
	if o.RunSecs > 0 {
		cov["runs_per_hour"] = int64(float64(o.Counters["runs"]) / o.RunSecs * 3600)
		cov["evaluations_per_hour"] = int64(float64(evals) / o.RunSecs * 3600)
	}
	cov["seeds"] = o.Seeds
	cov["simulated_time"] = "the system has no clock or timer; progress is measured in logical events (evaluations = executed scenarios)"
	groups := map[string]map[string]int64{}
	other := map[string]int64{}
	for k, v := range o.Counters {
		if i := strings.IndexByte(k, ':'); i > 0 {
			g := k[:i]
			if groups[g] == nil {
				groups[g] = map[string]int64{}
			}
			groups[g][k[i+1:]] = v
		} else {
			other[k] = v
		}
	}
	for g, m := range groups {
		cov["count_"+g] = m
	}
	cov["counters"] = other
	if f, ok := groups["fault"]; ok {
		cov["fault_kinds_fired"] = f
	}
	var built, excluded []map[string]string
	nb := 0
	for _, b := range o.Built {
		if b.OK {
			nb++
			continue
		}
		if len(excluded) < 40 {
			excluded = append(excluded, map[string]string{"package": b.Pkg, "stage": b.Stage, "error": clipS(b.Err, 300)})
		}
	}
	_ = built
	cov["programs_built"] = nb
	cov["programs_excluded_count"] = len(o.Built) - nb
	cov["programs_excluded"] = excluded
	cov["instrumentation"] = map[string]int{"map_ranges": o.Instr.MapRanges, "allocs": o.Instr.Allocs, "loop_steps": o.Instr.Steps, "yields": o.Instr.Yields, "os_calls": o.Instr.OSCalls}
	cov["components_real"] = cfg.RealStub["real"]
	cov["components_stub"] = cfg.RealStub["stub"]
	cov["known_findings_hit"] = knownIDs
	cov["log_hashes"] = o.LogHashes
	cov["build_s"] = o.BuildSecs
	cov["run_s"] = o.RunSecs
	seed := int64(0)
	if len(o.Seeds) > 0 {
		seed = int64(o.Seeds[0])
	}
	ev := map[string]interface{}{
		"property_id": o.Prop, "tier": o.Tier, "seed": seed, "level": o.Level, "coverage": cov,
		"assumptions": cfg.Assume, "wall_s": wall, "violations": len(o.Violations),
	}
	b, err := json.MarshalIndent(ev, "", " ")
	if err != nil {
		return err
	}
	return os.WriteFile(filepath.Join(VerifDir(), "evidence", o.Prop+".json"), b, 0o644)
}

func runNodeRaw(node string, args []string, timeout time.Duration) (string, string, error) {
	cmd := exec.Command(node, args...)
	var stdout, stderr bytes.Buffer
	cmd.Stdout, cmd.Stderr = &stdout, &stderr
	if err := cmd.Start(); err != nil {
		return "", "", err
	}
	timer := time.AfterFunc(timeout, func() { cmd.Process.Kill() })
	defer timer.Stop()
	err := cmd.Wait()
	return stdout.String(), stderr.String(), err
}

func exitCode(err error) int {
	if err == nil {
		return 0
	}
	if ee, ok := err.(*exec.ExitError); ok {
		return ee.ExitCode()
	}
	return -1
}
