// Package coord is the coordinator side of the simulator: it builds a scratch copy of
// /repo's working tree, instruments it, generates and compiles the programs of a batch,
// runs simulation nodes and collects their reports.
package coord

import (
	"fmt"
	"go/token"
	"io"
	"io/fs"
	"os"
	"os/exec"
	"path/filepath"
	"sort"
	"strings"

	"verif/pkg/instrument"
)

// Env returns the environment every child go command runs with.
func Env(extra ...string) []string {
	env := os.Environ()
	env = append(env, "GOFLAGS=-mod=mod", "GOPROXY=off", "GOSUMDB=off", "GOTOOLCHAIN=local", "CGO_ENABLED=0")
	return append(env, extra...)
}

func RepoDir() string {
	if d := os.Getenv("VERIF_REPO"); d != "" {
		return d
	}
	return "/repo"
}

// VerifDir locates the /verif tree this binary belongs to.
func VerifDir() string {
	if d := os.Getenv("VERIF_DIR"); d != "" {
		return d
	}
	if exe, err := os.Executable(); err == nil {
		d := filepath.Dir(filepath.Dir(exe))
		if _, err := os.Stat(filepath.Join(d, "simrt", "simrt.go")); err == nil {
			return d
		}
	}
	if wd, err := os.Getwd(); err == nil {
		if _, err := os.Stat(filepath.Join(wd, "simrt", "simrt.go")); err == nil {
			return wd
		}
	}
	return "/verif"
}

type Work struct {
	Dir   string // scratch root, removed by Close
	Repo  string // instrumented copy of the repository
	H     string // harness module
	Fset  *token.FileSet
	Imp   *instrument.Importer
	Stats instrument.Stats
	Keep  bool
}

func NewWork() (*Work, error) {
	base := os.Getenv("VERIF_TMP")
	if base == "" {
		base = "/var/tmp"
	}
	if err := os.MkdirAll(base, 0o755); err != nil {
		return nil, err
	}
	dir, err := os.MkdirTemp(base, "verif.")
	if err != nil {
		return nil, err
	}
	w := &Work{Dir: dir, Repo: filepath.Join(dir, "repo"), H: filepath.Join(dir, "h"), Fset: token.NewFileSet()}
	w.Keep = os.Getenv("VERIF_KEEP") != ""
	return w, nil
}

func (w *Work) Close() {
	if w.Keep {
		fmt.Fprintf(os.Stderr, "verif: keeping scratch %s\n", w.Dir)
		return
	}
	os.RemoveAll(w.Dir)
}

// CopyRepo copies the repository working tree (without .git; testdata only on request).
func (w *Work) CopyRepo(withTestdata bool) error {
	src := RepoDir()
	return filepath.WalkDir(src, func(p string, d fs.DirEntry, err error) error {
		if err != nil {
			return err
		}
		rel, _ := filepath.Rel(src, p)
		if rel == "." {
			return os.MkdirAll(w.Repo, 0o755)
		}
		top := strings.Split(rel, string(filepath.Separator))[0]
		if top == ".git" || (top == "testdata" && !withTestdata) {
			if d.IsDir() {
				return filepath.SkipDir
			}
			return nil
		}
		dst := filepath.Join(w.Repo, rel)
		if d.IsDir() {
			return os.MkdirAll(dst, 0o755)
		}
		if !d.Type().IsRegular() {
			return nil
		}
		return copyFile(p, dst)
	})
}

func copyFile(src, dst string) error {
	in, err := os.Open(src)
	if err != nil {
		return err
	}
	defer in.Close()
	out, err := os.Create(dst)
	if err != nil {
		return err
	}
	if _, err := io.Copy(out, in); err != nil {
		out.Close()
		return err
	}
	return out.Close()
}

const RepoModule = "github.com/200sc/bebop"

// PatchGoMod makes the scratch copy depend on the verif module (for simrt/simos).
func (w *Work) PatchGoMod() error {
	p := filepath.Join(w.Repo, "go.mod")
	b, err := os.ReadFile(p)
	if err != nil {
		return err
	}
	s := string(b) + "\nrequire verif v0.0.0\n\nreplace verif => " + VerifDir() + "\n"
	return os.WriteFile(p, []byte(s), 0o644)
}

// InstrumentRepo rewrites the listed packages (paths relative to the module root).
func (w *Work) InstrumentRepo(pkgs map[string]instrument.Options) error {
	if w.Imp == nil {
		w.Imp = instrument.NewImporter(w.Fset, map[string]string{
			RepoModule: w.Repo,
			"verif":    VerifDir(),
		})
	}
	// deterministic order
	order := []string{"iohelp", "internal/importgraph", ".", "main/bebopc-go", "main/bebopfmt"}
	// the seams have to cover whatever package the code lives in, also one that a change
	// to the repository adds: every other package of the module (no testdata, no hidden or
	// underscore directories) is rewritten too
	if _, hasRoot := pkgs["."]; hasRoot {
		pkgs2 := map[string]instrument.Options{}
		for k, v := range pkgs {
			pkgs2[k] = v
		}
		var extra []string
		filepath.WalkDir(w.Repo, func(path string, d os.DirEntry, err error) error {
			if err != nil || !d.IsDir() {
				return nil
			}
			name := d.Name()
			if path != w.Repo && (name == "testdata" || name == "vendor" || strings.HasPrefix(name, ".") || strings.HasPrefix(name, "_")) {
				return filepath.SkipDir
			}
			rel, _ := filepath.Rel(w.Repo, path)
			rel = filepath.ToSlash(rel)
			if _, listed := pkgs[rel]; listed {
				return nil
			}
			ents, _ := os.ReadDir(path)
			for _, e := range ents {
				if n := e.Name(); strings.HasSuffix(n, ".go") && !strings.HasSuffix(n, "_test.go") {
					extra = append(extra, rel)
					break
				}
			}
			return nil
		})
		sort.Strings(extra)
		// (the union of what the listed packages get: a new package may hold runtime
		// helpers, file handling or parser code)
		var all instrument.Options
		for _, o := range pkgs {
			all.MapOrder = all.MapOrder || o.MapOrder
			all.Alloc = all.Alloc || o.Alloc
			all.Step = all.Step || o.Step
			all.Yield = all.Yield || o.Yield
			all.OSShim = all.OSShim || o.OSShim
			all.Sync = all.Sync || o.Sync
		}
		for _, rel := range extra {
			pkgs2[rel] = all
		}
		order = append(extra, order...)
		pkgs = pkgs2
	}
	seen := map[string]bool{}
	for _, rel := range order {
		opts, ok := pkgs[rel]
		if !ok {
			continue
		}
		seen[rel] = true
		ip := RepoModule
		if rel != "." {
			ip += "/" + rel
		}
		st, err := instrument.Dir(filepath.Join(w.Repo, rel), ip, opts, w.Imp, false)
		if err != nil {
			return err
		}
		w.Stats.Add(st)
	}
	for rel := range pkgs {
		if !seen[rel] {
			return fmt.Errorf("InstrumentRepo: unknown package %q", rel)
		}
	}
	return nil
}

// Run executes a command in dir with the offline go environment; output is returned.
func Run(dir string, extraEnv []string, name string, args ...string) ([]byte, error) {
	cmd := exec.Command(name, args...)
	cmd.Dir = dir
	cmd.Env = Env(extraEnv...)
	return cmd.CombinedOutput()
}
