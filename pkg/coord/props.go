package coord

import "verif/pkg/instrument"

var codecReal = []string{
	"tokenizer, parser, validator, generator of the working tree (instrumented scratch copy: map-order seam only)",
	"iohelp runtime (instrumented: allocation and loop accounting)",
	"generated encoders/decoders, emitted at check time by the real Generate and compiled (instrumented: map order, make() sizes, loop steps)",
}
var codecStub = []string{
	"network/pipe between peers: simnet link (in-memory FIFO with explicit chunk schedule and fault trace)",
	"Go map iteration order: chosen by the simulator",
	"clocks: none exist in the system; date values are data",
	"reference codec, value model: oracle code in /verif",
}

var codecAssume = []string{
	"the reference codec in /verif/pkg/refcodec is a correct reading of the Bebop wire format as stated in C03/C20",
	"schemas are drawn from /verif/pkg/schema's generator plus a fixed core population; accepted schemas whose generated code does not compile are excluded and listed (C12 is not claimed)",
	"dates are restricted to the range both time.Time.UnixNano and int64 ticks represent; a map holds each NaN key bit pattern at most once",
}

func stdRealStub() map[string][]string {
	return map[string][]string{"real": codecReal, "stub": codecStub}
}

var Props = map[string]*PropCfg{
	"C01": {
		ID: "C01", Level: "exploration",
		Rule: "one evaluation = one (program, option mask, record type, value, encoder, decoder/wrapper, map order, chunk schedule, reader kind) scenario executed on the generated code; " +
			"distinct_nontrivial counts distinct (record type shape, encoder, decoder) triples that were actually executed (pairings whose decoder is not generated under the program's options are not counted)",
		RandProgs: map[string]int{"quick": 14, "thorough": 60},
		Runs:      map[string]int{"quick": 40000, "thorough": 400000},
		MasksPer:  map[string]int{"quick": 2, "thorough": 4},
		Assume:    codecAssume, RealStub: stdRealStub(),
	},
	"C02": {
		ID: "C02", Level: "exploration",
		Rule: "one evaluation = one (program, mask, record, value, map order, destination-buffer pre-state {zero,0xFF,random} x {exact guarded size, padded}, writer kind) scenario comparing MarshalBebop, MarshalBebopTo and EncodeBebop; " +
			"distinct_nontrivial counts distinct (record shape, fill, padded?, order strategy) tuples",
		RandProgs: map[string]int{"quick": 14, "thorough": 60},
		Runs:      map[string]int{"quick": 40000, "thorough": 400000},
		MasksPer:  map[string]int{"quick": 2, "thorough": 4},
		Assume:    codecAssume, RealStub: stdRealStub(),
	},
	"C03": {
		ID: "C03", Level: "exploration",
		Rule: "one evaluation = one scenario in which either the wire monitor compares a generated encoder's bytes with the reference codec (strict decode, value equality, byte-exact re-encoding) or a reference peer sends a conformant encoding with permuted map entries to a generated decoder; " +
			"distinct_nontrivial counts distinct (record shape, direction, encoder or decoder) tuples",
		RandProgs: map[string]int{"quick": 14, "thorough": 60},
		Runs:      map[string]int{"quick": 40000, "thorough": 400000},
		MasksPer:  map[string]int{"quick": 2, "thorough": 4},
		Assume:    codecAssume, RealStub: stdRealStub(),
	},
	"C04": {
		ID: "C04", Level: "exploration", Evolve: true,
		Rule: "one evaluation = one scenario in which a sender built from schema version v2 (messages extended with fresh higher indices and/or still sending fields the reader deprecates) talks to a receiver built from v1, for every encoder x {UnmarshalBebop, DecodeBebop, Make, MakeFromBytes, MustUnmarshalBebop}, the evolved message planted at top level, as struct field, array element, map value, message field and union branch, each followed by a sentinel field, plus a two-record stream history; " +
			"distinct_nontrivial counts distinct (record shape, decoder) pairs among evaluations whose value actually carried fields unknown to the reader",
		RandProgs: map[string]int{"quick": 14, "thorough": 60},
		Runs:      map[string]int{"quick": 30000, "thorough": 300000},
		MasksPer:  map[string]int{"quick": 2, "thorough": 3},
		Assume:    codecAssume, RealStub: stdRealStub(),
	},
	"C05": {
		ID: "C05", Level: "exploration", Evolve: true,
		Rule: "one evaluation = one history of 1-6 records (same or mixed types, optionally read by an older-schema peer) written back-to-back with EncodeBebop and followed by guard bytes, decoded in order from one simulated link under one chunk schedule and reader kind; per history the all-at-once, 1-byte, boundary-straddling and boundary-aligned schedules are always run and two more are drawn; after every DecodeBebop the link position must equal the record boundary; " +
			"distinct_nontrivial counts distinct (history length, schedule family, reader kind, first record kind, old-reader?) tuples Extensions: the sender writes the history through one writer it keeps; a third of the histories are read after the receiver decoded on an empty and on a cut-short stream; another third with a second caller decoding while the first is inside its k-th Read; reader kinds include *io.LimitedReader, *bytes.Reader, *bytes.Buffer.",
		RandProgs: map[string]int{"quick": 14, "thorough": 60},
		Runs:      map[string]int{"quick": 30000, "thorough": 300000},
		MasksPer:  map[string]int{"quick": 2, "thorough": 3},
		Assume:    codecAssume, RealStub: stdRealStub(),
	},
	"C06": {
		ID: "C06", Level: "fault_enumeration", Evolve: true,
		Rule: "per sampled (program, value): EVERY cut point 0<=k<len of the reference encoding (all of them up to 4096 bytes; structural boundaries +-1 and 64 samples beyond) x {UnmarshalBebop on an exact-capacity guard-paged slice, DecodeBebop all-at-once + EOF, DecodeBebop under a drawn chunk schedule and reader kind + EOF/ErrUnexpectedEOF, MakeFromBytes every 7th}; oracle: non-nil error, no panic, allocation and step budgets relative to the full valid length; " +
			"distinct_nontrivial counts distinct (record shape, element kind the cut landed on, decoder variant) triples Extensions: budgets are relative to the bytes GIVEN (the cut); a third of the values of evolved programs are read by the OLDER schema; one value in 16 carries payloads beyond 64 KiB and one in ~40 a GIANT array of 2^17 scalars (cuts then sampled, about 40 MB of input per value). Per cut also: a reused receiver, a short view with the rest of the encoding in spare capacity, a frame cut by a caller's *io.LimitedReader over a longer stream; per second value an honest giant prefix (a count of fixed-size elements set to 2^22..2^24, enclosing lengths adjusted). Allocation floor 1 MiB.",
		RandProgs: map[string]int{"quick": 14, "thorough": 60},
		Runs:      map[string]int{"quick": 4000, "thorough": 40000},
		MasksPer:  map[string]int{"quick": 2, "thorough": 3},
		Assume:    append(append([]string{}, codecAssume...), "arrays/maps whose element can occupy zero bytes on the wire (empty structs) are excluded from C06/C07/C08 populations: for those a large count is a valid encoding"), RealStub: stdRealStub(),
	},
	"C07": {
		ID: "C07", Level: "exploration",
		Rule: "one evaluation = one corrupted or unstructured byte string given to UnmarshalBebop / DecodeBebop (drawn chunk schedule, reader kind) / MakeFromBytes; corruptions are structure-aware via the reference offset map (count/length/body-length inflation to 2^16..2^32-1 and +-1, index/discriminator/terminator rewrites, bit flips, noise ranges, span delete/duplicate/swap, foreign-record splice, truncate-and-pad) plus random and constant strings; oracle: returns (nil or error), no panic, allocation and step budgets relative to the bytes given; " +
			"distinct_nontrivial counts distinct (record shape, mutation class, decoder) triples Extensions: length prefixes set to exactly what is left of the input (+-2); scalars set to special bit patterns (NaNs, infinities, -0, all ones); unstructured bytes for the decoders of EVERY record type, also types no value of which can be built (union without members). One corrupted input in three goes into a receiver that was used before; deep values with spines of 24-40 nested records; a mutation that collapses every length prefix.",
		RandProgs: map[string]int{"quick": 14, "thorough": 60},
		Runs:      map[string]int{"quick": 6000, "thorough": 80000},
		MasksPer:  map[string]int{"quick": 2, "thorough": 3},
		Assume:    append(append([]string{}, codecAssume...), "MustUnmarshalBebop is exempt (documented unchecked variant)"), RealStub: stdRealStub(),
	},
	"C08": {
		ID: "C08", Level: "fault_enumeration", Evolve: true,
		Rule: "per sampled (program, value): the fault-free run gives W Write calls and B bytes; then EVERY Write call k<W is failed (bare and partial/transient, error value from a menu of 13 incl. EAGAIN, wrapped EINTR, net-style timeouts, deadline, io.ErrShortWrite) plus 8 byte offsets, and EVERY read offset k<B (all up to 2048; boundaries +-1 and samples beyond) is failed bare, with partial data under a drawn chunk schedule, and transiently; oracle: an error returned to the code => non-nil result, no panic, budgets; nil from EncodeBebop => bytes == MarshalBebop; " +
			"distinct_nontrivial counts distinct (record shape, fault kind, error value or element kind) triples among faults that actually fired Extensions: the read-fault menu includes a clean io.EOF before the last byte of the record; payloads beyond 64 KiB in one value of 16 (faulted calls then strided to about 40 MB of encoded bytes per value). One value in three also as part of a HISTORY of 2-4 records through one kept writer/reader with the fault anywhere in it; transient read faults also arrive with fewer bytes than asked.",
		RandProgs: map[string]int{"quick": 14, "thorough": 60},
		Runs:      map[string]int{"quick": 4000, "thorough": 40000},
		MasksPer:  map[string]int{"quick": 2, "thorough": 3},
		Assume:    codecAssume, RealStub: stdRealStub(),
	},
	"C09": {
		ID: "C09", Level: "exploration", Evolve: true,
		Rule: "one evaluation = one scenario with a sender built under option mask X and a receiver under mask Y != X of the same schema: bytes from X must equal bytes from Y (every encoder, same imposed map order) and Y must decode X's bytes to the value (every decoder incl. MustUnmarshalBebop where generated, stream paths under drawn schedules); " +
			"distinct_nontrivial counts distinct (record shape, option difference X xor Y, decoder/encoder) triples Extension: a third of the pairs read with an OLDER-schema build (peer still sends what the reader deprecates, adds fields it does not know), so the Must* decoders are compared on those valid encodings too.",
		RandProgs: map[string]int{"quick": 10, "thorough": 40},
		Runs:      map[string]int{"quick": 20000, "thorough": 200000},
		MasksPer:  map[string]int{"quick": 4, "thorough": 32},
		Assume:    codecAssume, RealStub: stdRealStub(),
	},
	"C20": {
		ID: "C20", Level: "fault_enumeration", NoProgs: true,
		Rule: "no generated code: sequences of typed iohelp primitive writes through an ErrorWriter onto the simulated link and typed reads through an ErrorReader, plus the *Bytes variants on exact-width guard-paged slices. Fault-free part: all 2^16 values of uint16/int16 and all values of bool/byte/uint8 exhaustively, boundary+random values of the wider types, GUIDs, dates, strings; stream bytes == slice bytes == reference layout; stream and slice readers invert the writers under drawn chunk schedules and reader kinds; ReadStringBytes[SharedMemory] on every buffer length 0..4+len+1. Fault part: for a multi-primitive stream whose every wire byte is from a taint alphabet, EVERY byte offset is failed (EOF; error bare/partial under a chunk schedule; transient); oracle: ErrorReader.Err set by the read that needed the missing byte, and no value returned by that read or any later one contains a tainted byte it was not delivered (bool: not true; string: empty unless its prefix arrived); " +
			"distinct_nontrivial counts distinct (primitive the fault landed in, fault kind, offset inside the primitive) triples plus distinct fault-free stream shapes Extension: short views (every primitive on a slice shorter than its width whose spare capacity holds a complete encoding: readers must panic or fail, writers must not touch the neighbour).",
		Runs:     map[string]int{"quick": 4000, "thorough": 60000},
		Assume:   []string{"reference layout from /verif/pkg/refcodec", "dates restricted to the range int64 nanoseconds represent"},
		RealStub: map[string][]string{"real": {"iohelp runtime of the working tree (instrumented for allocation/step accounting only)"}, "stub": {"the byte stream: simnet link with chunk schedule and fault trace", "reference layout"}},
	},
	"C10": {
		ID: "C10", Level: "fault_enumeration", TextOnly: true,
		RepoInstr: map[string]instrument.Options{".": {MapOrder: true, Step: true, Globals: true}, "internal/importgraph": {MapOrder: true}, "iohelp": {MapOrder: true, Alloc: true, Step: true, Globals: true}},
		Rule: "ReadFile reading through the simulated link. Inputs: every token string of length 1 and 2 over a 41-token vocabulary exhaustively (length 3 in the thorough tier), printed schemas in varied layouts (indent, CRLF, one-line, comments), the same torn at a random byte, with junk fragments inserted or appended (unterminated comments/strings, stray and non-UTF-8 bytes, partial tokens), token soup. Per input: one fault-free parse under a drawn chunk schedule with the completeness probe (accepted input + one fresh definition must fail or contain it), then a reader failure at EVERY byte offset (inputs <= 400 bytes; 64 sampled offsets beyond) bare, with partial data under a chunk schedule, and transiently, error values from a menu of 4 (wrapped io.EOF excluded). Oracles: no panic; step budget 2e5+200*len on the parser's loops; an error returned by the link => non-nil error from ReadFile; completeness; " +
			"distinct_nontrivial counts distinct (input origin, outcome, schedule family) and (origin, fault kind, outcome) triples for faults that fired Extensions: semantic soup (well-formed definitions with arbitrary meaning: [flags] expressions over every literal and operator, out-of-range values, opcodes of any form, deep and unknown types) and LARGE inputs padded with comments to 2^16..2^22 bytes +-1; every string of 1..3 characters over the 13 characters number lexemes are made of (digits, e, E, +, -, ., x, _, f, i, n), bare and as a const value, exhaustively, and random lexeme soup in ten literal positions (const, enum value, message index, flag expression, opcode, string, deprecated text, comment, end of input); error menu also holds EAGAIN, wrapped EINTR, timeouts, deadlines and the io package's own errors.",
		RandProgs: map[string]int{"quick": 20, "thorough": 80},
		Runs:      map[string]int{"quick": 11000, "thorough": 90000},
		Params:    map[string]map[string]int{"thorough": {"tokens3": 1}},
		Assume:    []string{"an io.Reader error that wraps io.EOF is not in the fault menu: whether that is an I/O error or an end of file is not settled by the property"},
		RealStub:  map[string][]string{"real": {"tokenizer and parser of the working tree (instrumented: loop steps, map order)"}, "stub": {"the file: simnet link with chunk schedule and fault trace"}},
	},
	"C14": {
		ID: "C14", Level: "exploration", TextOnly: true,
		RepoInstr: map[string]instrument.Options{
			".":                    {MapOrder: true, Yield: true, Globals: true, Sync: true},
			"internal/importgraph": {MapOrder: true, Yield: true, Sync: true},
			"iohelp":               {MapOrder: true, Globals: true, Sync: true},
		},
		Rule: "one evaluation = one scenario of 2-4 concurrent calls drawn from {Generate under random options and import mode, Validate, Format, ReadFile} on ONE shared File (parsed, optionally with an import and with 1-8 slots of spare slice capacity), executed as real goroutines under a cooperative baton scheduler that can switch before every statement of the library (yield points inserted by source rewriting); schedule drawn from random-with-run-length or PCT strategies and recorded as an explicit switch list; map iteration order imposed per task. Oracles: every task's output bytes and error-ness == the same call alone under canonical map order; the same call repeated under another map order gives identical bytes; the shared File's visible content never changes; no spare-capacity slot or package-level variable is written by two tasks without ordering (logical write/write race); no panic; plus reader-chunking independence of ReadFile/Format; " +
			"distinct_nontrivial counts distinct (task multiset, strategy, import?, spare?, switch-list hash) tuples, i.e. distinct interleavings Extensions: callers issue 1-3 calls in a row; one scenario in six appends definitions that parse but cannot be compiled and error TEXTS are compared; sync.Pool/Mutex/RWMutex/Once are modelled by the simulator; a third strategy hands the baton on within 1-8 yields after a synchronisation operation; fingerprints of package variables include the spare capacity of every slice reachable from them.",
		RandProgs: map[string]int{"quick": 10, "thorough": 40},
		Runs:      map[string]int{"quick": 640, "thorough": 12000},
		Assume:    []string{"statement-level yields reach every interleaving that matters because the library has no atomics or locks of its own (R2 in DESIGN.md); sync/atomic calls introduced later are wrapped cooperatively", "read/write races on spare capacity are judged by their consequence (output differs from the solo run), not by fingerprints"},
		RealStub:  map[string][]string{"real": {"tokenizer, parser, validator, formatter, generator of the working tree (instrumented: yield before every statement, map order, sync wrappers)", "import loader reading real files from a temp dir"}, "stub": {"Go scheduler: cooperative baton scheduler, one runnable goroutine at a time", "Go map iteration order: chosen per task by the simulator"}},
	},
	"C19": {
		ID: "C19", Level: "fault_enumeration", TextOnly: true, CLI: true,
		RepoInstr: map[string]instrument.Options{
			".":                    {MapOrder: true, Globals: true, OSShim: true},
			"internal/importgraph": {MapOrder: true},
			"iohelp":               {MapOrder: true, Alloc: true, Step: true, Globals: true},
			"main/bebopc-go":       {OSShim: true},
			"main/bebopfmt":        {OSShim: true},
		},
		Rule: "the real bebopc-go and bebopfmt main packages, built from the working tree with every os call routed through the simos shim, run as OS processes in a private workspace that holds the input schema(s) (valid / syntax error / validation error / with an import / with a missing import) and a PRE-EXISTING target (the -o file with known bytes; the schema file(s) being rewritten by bebopfmt -w, also as a directory and as several arguments). The fault-free run gives the operation list; then EVERY operation index x {error (errno menu), torn write with k bytes written, SIGKILL before, SIGKILL after} as applicable to the operation kind. Oracles: failed or crashed run => every pre-existing file byte-identical (crash: or identical to the complete fault-free result); exit status non-zero <=> something other than warnings was printed; exit 0 => output == fault-free output (bebopc-go) / every rewritten file re-parses with the real ReadFile to the same schema modulo comments (bebopfmt); " +
			"distinct_nontrivial counts distinct (tool, input class, operation kind x fault kind, exit status) tuples Extensions: input classes valid / syntax error / validation error / import / missing import / import paths differing in leading dots and slashes; files with comments, CRLF, trailing remarks, multi-line string constants, no final newline; a tool still running after 20 s is reported as hang.",
		RandProgs: map[string]int{"quick": 10, "thorough": 40},
		Runs:      map[string]int{"quick": 320, "thorough": 6000},
		Assume:    []string{"process-crash model: what reached the file system before SIGKILL stays, buffered data in the process is lost; no power-loss model (the tools never fsync, so any outcome would be legal)", "os APIs that simos does not implement are left as real os calls and escape injection (none today; listed in evidence as instrumentation.os_left)"},
		RealStub:  map[string][]string{"real": {"bebopc-go and bebopfmt main packages and the whole library, as separate OS processes (os calls routed through simos)", "the file system: a real temp directory"}, "stub": {"failures of the OS: injected at the os call boundary by simos from an explicit fault plan", "reference file-system model: snapshot of the workspace before the run"}},
	},
}
