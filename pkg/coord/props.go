package coord

var codecReal = []string{
	"tokenizer, parser, validator, generator of the working tree (instrumented scratch copy: map-order seam only)",
	"iohelp runtime (instrumented: allocation and loop accounting)",
	"generated encoders/decoders, emitted at check time by the real Generate and compiled (instrumented: map order, make() sizes, loop steps)",
}
var codecStub = []string{
	"network/pipe between peers: simnet link (in-memory FIFO with explicit chunk schedule and fault trace)",
	"Go map iteration order: chosen by the simulator",
	"clocks: none exist in the system; date values are data",
	"reference codec, value model: oracle code in /verif",
}

var codecAssume = []string{
	"the reference codec in /verif/pkg/refcodec is a correct reading of the Bebop wire format as stated in C03/C20",
	"schemas are drawn from /verif/pkg/schema's generator plus a fixed core population; accepted schemas whose generated code does not compile are excluded and listed (C12 is not claimed)",
	"dates are restricted to the range both time.Time.UnixNano and int64 ticks represent; NaN map keys are excluded",
}

func stdRealStub() map[string][]string {
	return map[string][]string{"real": codecReal, "stub": codecStub}
}

var Props = map[string]*PropCfg{
	"C01": {
		ID: "C01", Level: "exploration",
		Rule: "one evaluation = one (program, option mask, record type, value, encoder, decoder/wrapper, map order, chunk schedule, reader kind) scenario executed on the generated code; " +
			"distinct_nontrivial counts distinct (record type shape, encoder, decoder) triples that were actually executed (pairings whose decoder is not generated under the program's options are not counted)",
		RandProgs: map[string]int{"quick": 14, "thorough": 60},
		Runs:      map[string]int{"quick": 40000, "thorough": 400000},
		MasksPer:  map[string]int{"quick": 2, "thorough": 4},
		Assume:    codecAssume, RealStub: stdRealStub(),
	},
	"C02": {
		ID: "C02", Level: "exploration",
		Rule: "one evaluation = one (program, mask, record, value, map order, destination-buffer pre-state {zero,0xFF,random} x {exact guarded size, padded}, writer kind) scenario comparing MarshalBebop, MarshalBebopTo and EncodeBebop; " +
			"distinct_nontrivial counts distinct (record shape, fill, padded?, order strategy) tuples",
		RandProgs: map[string]int{"quick": 14, "thorough": 60},
		Runs:      map[string]int{"quick": 40000, "thorough": 400000},
		MasksPer:  map[string]int{"quick": 2, "thorough": 4},
		Assume:    codecAssume, RealStub: stdRealStub(),
	},
	"C03": {
		ID: "C03", Level: "exploration",
		Rule: "one evaluation = one scenario in which either the wire monitor compares a generated encoder's bytes with the reference codec (strict decode, value equality, byte-exact re-encoding) or a reference peer sends a conformant encoding with permuted map entries to a generated decoder; " +
			"distinct_nontrivial counts distinct (record shape, direction, encoder or decoder) tuples",
		RandProgs: map[string]int{"quick": 14, "thorough": 60},
		Runs:      map[string]int{"quick": 40000, "thorough": 400000},
		MasksPer:  map[string]int{"quick": 2, "thorough": 4},
		Assume:    codecAssume, RealStub: stdRealStub(),
	},
}
