package coord

import (
	"encoding/json"
	"fmt"
	"os"
	"path/filepath"
	"sort"
	"time"

	"verif/pkg/instrument"
	"verif/pkg/proto"
)

var codecRepoInstr = map[string]instrument.Options{
	".":                    {MapOrder: true, Globals: true},
	"internal/importgraph": {MapOrder: true},
	"iohelp":               {MapOrder: true, Alloc: true, Step: true, Globals: true, Sync: true},
}

// Sync: sync.Pool (none today) is replaced by the simulator's deterministic free list, so
// that what a pooled object holds never depends on the garbage collector.
var genInstr = instrument.Options{MapOrder: true, Alloc: true, Step: true, Sync: true}

// CheckCodec runs a codec property (C01..C09): per seed, build the population with the
// real generator from the working tree, then run the simulation nodes.
func CheckCodec(cfg *PropCfg, tier string) int {
	known, err := LoadKnown()
	if err != nil {
		fmt.Fprintln(os.Stderr, "verif:", err)
		return 2
	}
	out := newOutcome(cfg.ID, tier, cfg.Level)
	for _, seed := range tierSeeds(cfg, tier) {
		out.Seeds = append(out.Seeds, seed)
		if err := codecSeed(cfg, tier, seed, known, out); err != nil {
			fmt.Fprintln(os.Stderr, "verif: harness trouble:", err)
			return 2
		}
		if len(out.Violations) > 0 {
			break
		}
	}
	return out.Finish(cfg, known, nil)
}

func timeoutFor(tier string) time.Duration {
	if tier == "thorough" {
		return 90 * time.Minute
	}
	return 6 * time.Minute
}

// prepared is everything a seed needs before nodes can run.
type prepared struct {
	w     *Work
	node  string
	batch *proto.Batch
	built []Built
}

// prepareSeed builds the scratch copy, instruments it, generates and compiles the seed's
// population and links the node binary.
func prepareSeed(cfg *PropCfg, tier string, seed uint64, known []proto.KnownFinding) (*prepared, error) {
	w, err := NewWork()
	if err != nil {
		return nil, err
	}
	fail := func(err error) (*prepared, error) {
		w.Close()
		return nil, err
	}
	if err := w.CopyRepo(false); err != nil {
		return fail(err)
	}
	if err := w.PatchGoMod(); err != nil {
		return fail(err)
	}
	instr := codecRepoInstr
	if cfg.RepoInstr != nil {
		instr = cfg.RepoInstr
	}
	if err := w.InstrumentRepo(instr); err != nil {
		return fail(fmt.Errorf("instrumenting the working tree: %w", err))
	}
	if cfg.CLI {
		if err := buildCLIs(w); err != nil {
			return fail(err)
		}
	}
	specs := population(cfg, tier, seed)
	buildSpecs := specs
	if cfg.TextOnly {
		buildSpecs = nil
	}
	built, node, err := w.BuildPrograms(buildSpecs, genInstr, nil)
	if err != nil {
		return fail(err)
	}
	batch := &proto.Batch{Property: cfg.ID, Tier: tier, Seed: seed, Runs: cfg.Runs[tier], Params: cfg.Params[tier], SrcRoot: w.H}
	if s := os.Getenv("VERIF_RUNS"); s != "" {
		fmt.Sscan(s, &batch.Runs)
	}
	if w.Stats.GoStmts > 0 {
		// the library starts goroutines of its own, which the baton scheduler does not own:
		// C14 falls back to free-running callers and outcome oracles (DESIGN.md 3.13)
		pm := map[string]int{}
		for k, v := range batch.Params {
			pm[k] = v
		}
		pm["go_stmts"] = w.Stats.GoStmts
		batch.Params = pm
	}
	for _, k := range known {
		if k.Property == cfg.ID && k.Status == "open" {
			batch.Known = append(batch.Known, k)
		}
	}
	for _, sp := range specs {
		batch.Programs = append(batch.Programs, proto.BatchProg{ID: sp.ID, Schema: sp.Schema, Bop: sp.Bop, Old: sp.Old, OldBop: sp.OldBop, Masks: sp.Masks})
	}
	return &prepared{w: w, node: node, batch: batch, built: built}, nil
}

func codecSeed(cfg *PropCfg, tier string, seed uint64, known []proto.KnownFinding, out *Outcome) error {
	t0 := time.Now()
	p, err := prepareSeed(cfg, tier, seed, known)
	if err != nil {
		return err
	}
	defer p.w.Close()
	out.Built = append(out.Built, p.built...)
	out.Instr.Add(p.w.Stats)
	out.BuildSecs += time.Since(t0).Seconds()
	t1 := time.Now()
	if err := runShards(p.w, p.node, p.batch, out, timeoutFor(tier)); err != nil {
		return err
	}
	out.RunSecs += time.Since(t1).Seconds()
	verifyReplays(p.w, p.node, out)
	if !cfg.TextOnly && !cfg.NoProgs {
		minimisePrograms(p.w, out)
	}
	return nil
}

// minimisePrograms cuts the program of a (verified) violation down to the definitions its
// record types need, rebuilds that smaller program from the working tree and keeps it when
// the replay still ends in the same violation. At most three violations per seed are
// treated (a rebuild each); the others keep the whole program text.
func minimisePrograms(w *Work, out *Outcome) {
	done := 0
	for i, rp := range out.Violations {
		if done >= 3 {
			break
		}
		if rp.Scenario.Kind == "rerun" || len(rp.Programs) != 1 || rp.Programs[0].Schema == nil || rp.Scenario.Type == "" {
			continue
		}
		p := rp.Programs[0]
		types := append([]string{rp.Scenario.Type}, rp.Scenario.Types...)
		red := p.Schema.Reachable(types...)
		if red == nil || len(red.Defs) >= len(p.Schema.Defs) {
			continue
		}
		np := proto.ReplayProg{ID: p.ID, Schema: red, Bop: red.Print()}
		if red.HasLib() {
			np.Bop = red.PrintApp("lib.bop")
		}
		if p.Old != nil {
			ored := p.Old.Reachable(types...)
			if ored == nil {
				continue
			}
			np.Old, np.OldBop = ored, ored.Print()
			if ored.HasLib() {
				np.OldBop = ored.PrintApp("lib.bop")
			}
		}
		seen := map[int]bool{}
		for _, m := range []int{rp.Scenario.Mask, rp.Scenario.PeerMask} {
			if m >= 0 && !seen[m] {
				seen[m] = true
				np.Masks = append(np.Masks, m)
			}
		}
		sort.Ints(np.Masks)
		done++
		w2 := *w
		w2.H = filepath.Join(w.Dir, fmt.Sprintf("hmin%d", i))
		spec := ProgSpec{ID: np.ID, Schema: np.Schema, Bop: np.Bop, Masks: np.Masks, Old: np.Old, OldBop: np.OldBop}
		_, node, err := w2.BuildPrograms([]ProgSpec{spec}, genInstr, nil)
		if err != nil {
			os.RemoveAll(w2.H)
			continue
		}
		cand := *rp
		cand.Programs = []proto.ReplayProg{np}
		cand.ProgramCut = fmt.Sprintf("%d -> %d definitions", len(p.Schema.Defs), len(red.Defs))
		f := filepath.Join(w.Dir, fmt.Sprintf("replay-min-%d.json", i))
		b, _ := json.Marshal(&cand)
		os.WriteFile(f, b, 0o644)
		_, _, err = runNodeRaw(node, []string{"-replay", f}, 5*time.Minute)
		if exitCode(err) == 1 {
			cand.MarkVerified()
			out.Violations[i] = &cand
		}
		os.RemoveAll(w2.H)
	}
}

// verifyReplays re-executes every new violation from its replay file in a fresh process.
func verifyReplays(w *Work, node string, out *Outcome) {
	kept := out.Violations[:0]
	for i, rp := range out.Violations {
		if rp.Scenario.Kind == "rerun" || rp.Extra("verified") {
			kept = append(kept, rp)
			continue
		}
		f := filepath.Join(w.Dir, fmt.Sprintf("replay-%d.json", i))
		b, _ := json.Marshal(rp)
		os.WriteFile(f, b, 0o644)
		reports, stderr, err := runNodeRaw(node, []string{"-replay", f}, 5*time.Minute)
		code := exitCode(err)
		if code != 1 && rp.Violation.Facts["free_running"] == "true" {
			// the code under test starts its own goroutines: the Go runtime, not the
			// simulator, schedules them, so a replay is a re-execution, not a re-enactment.
			// Several attempts; what was observed stays a violation either way.
			for try := 0; try < 7 && code != 1; try++ {
				_, _, err = runNodeRaw(node, []string{"-replay", f}, 5*time.Minute)
				code = exitCode(err)
			}
			if code != 1 {
				rp.Violation.Detail += " [observed once; did not recur in 8 re-executions: goroutines started by the library are scheduled by the Go runtime]"
				code = 1
			}
		}
		if code == 1 {
			rp.MarkVerified()
			kept = append(kept, rp)
			continue
		}
		out.Trouble = append(out.Trouble, fmt.Sprintf("violation %q did not reproduce from its replay file (exit %d): %s %s", rp.Violation.Signature, code, clipS(reports, 300), clipS(stderr, 300)))
	}
	out.Violations = kept
}

// buildCLIs compiles the two command-line tools from the instrumented copy (their os
// calls routed through verif/simos) and tells the nodes where they are.
func buildCLIs(w *Work) error {
	dir := filepath.Join(w.Dir, "cli")
	if err := os.MkdirAll(dir, 0o755); err != nil {
		return err
	}
	for _, tool := range []string{"bebopc-go", "bebopfmt"} {
		if out, err := Run(w.Repo, nil, "go", "build", "-o", filepath.Join(dir, tool), "./main/"+tool); err != nil {
			return fmt.Errorf("building %s from the working tree failed: %v\n%s", tool, err, clip(out))
		}
	}
	os.Setenv("VERIF_CLI_DIR", dir)
	return nil
}
