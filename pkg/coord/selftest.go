package coord

import (
	"fmt"
	"os"
	"path/filepath"
	"sort"
	"strconv"
	"time"
)

// SelfTest runs the harness's own checks: determinism of the simulation across process
// layouts. (Transparency of the instrumentation is exercised by `selftest transparency`.)
func SelfTest(args []string) int {
	if len(args) == 0 {
		fmt.Fprintln(os.Stderr, "usage: verif selftest determinism|transparency [ID...]")
		return 2
	}
	switch args[0] {
	case "determinism":
		return selfDeterminism(args[1:])
	case "transparency":
		return selfTransparency()
	}
	fmt.Fprintln(os.Stderr, "unknown selftest", args[0])
	return 2
}

func envInt(name string, def int) int {
	if s := os.Getenv(name); s != "" {
		if v, err := strconv.Atoi(s); err == nil {
			return v
		}
	}
	return def
}

// selfDeterminism: for every property and several seeds, build once, then execute the
// same batch under different worker counts and GOMAXPROCS, twice each, in separate
// processes; every run's event-log hash must be identical in all executions.
func selfDeterminism(ids []string) int {
	if len(ids) == 0 {
		for id := range Props {
			ids = append(ids, id)
		}
		sort.Strings(ids)
	}
	nSeeds := envInt("VERIF_DET_SEEDS", 4)
	runs := envInt("VERIF_DET_RUNS", 96)
	os.Setenv("VERIF_RUNS", strconv.Itoa(runs))
	os.Setenv("VERIF_RUNLOG", "1")
	known, _ := LoadKnown()
	type layout struct{ workers, gomaxprocs int }
	layouts := []layout{{1, 1}, {5, 4}, {16, 16}, {16, 1}, {3, 16}, {1, 4}}
	bad := 0
	for _, id := range ids {
		cfg := Props[id]
		if cfg == nil {
			fmt.Fprintln(os.Stderr, "unknown property", id)
			return 2
		}
		t0 := time.Now()
		execs, diverged := 0, 0
		for s := 0; s < nSeeds; s++ {
			seed := uint64(1000 + 7*(s+envInt("VERIF_DET_FIRST", 0)))
			p, err := prepareSeed(cfg, "quick", seed, known)
			if err != nil {
				fmt.Fprintln(os.Stderr, "verif: harness trouble:", err)
				return 2
			}
			var ref map[int]string
			for li, l := range layouts {
				if os.Getenv("VERIF_DET_TRACE") != "" {
					// keep every run's log lines per layout: a divergence can then be located
					os.Setenv("VERIF_TRACEFILE", filepath.Join(os.Getenv("VERIF_DET_TRACE"), fmt.Sprintf("%s-s%d-L%d", id, seed, li)))
				}
				os.Setenv("VERIF_WORKERS", strconv.Itoa(l.workers))
				os.Setenv("VERIF_NODE_GOMAXPROCS", strconv.Itoa(l.gomaxprocs))
				out := newOutcome(id, "quick", cfg.Level)
				if err := runShards(p.w, p.node, p.batch, out, 10*time.Minute); err != nil {
					fmt.Fprintln(os.Stderr, "verif: harness trouble:", err)
					p.w.Close()
					return 2
				}
				execs++
				if ref == nil {
					ref = out.RunHashes
					if len(ref) != p.batch.Runs {
						fmt.Printf("DETERMINISM %s seed=%d: expected %d run hashes, got %d\n", id, seed, p.batch.Runs, len(ref))
						diverged++
					}
					continue
				}
				for run, h := range ref {
					if out.RunHashes[run] != h {
						fmt.Printf("DETERMINISM %s seed=%d run=%d: log hash %s under layout %+v differs from %s\n", id, seed, run, out.RunHashes[run], l, h)
						diverged++
						break
					}
				}
			}
			p.w.Close()
		}
		os.Unsetenv("VERIF_WORKERS")
		os.Unsetenv("VERIF_NODE_GOMAXPROCS")
		status := "ok"
		if diverged > 0 {
			status = "DIVERGED"
			bad++
		}
		fmt.Printf("determinism %s: %s (%d seeds x %d executions x %d runs, %.0fs)\n", id, status, nSeeds, len(layouts), runs, time.Since(t0).Seconds())
		_ = execs
	}
	if bad > 0 {
		return 1
	}
	return 0
}

// selfTransparency: the repository's own test suite must pass on the fully instrumented
// copy with no simulator attached.
func selfTransparency() int {
	w, err := NewWork()
	if err != nil {
		fmt.Fprintln(os.Stderr, err)
		return 2
	}
	defer w.Close()
	if err := w.CopyRepo(true); err != nil {
		fmt.Fprintln(os.Stderr, err)
		return 2
	}
	if err := w.PatchGoMod(); err != nil {
		fmt.Fprintln(os.Stderr, err)
		return 2
	}
	if err := w.InstrumentRepo(Props["C14"].RepoInstr); err != nil {
		fmt.Fprintln(os.Stderr, err)
		return 2
	}
	out, err := Run(w.Repo, nil, "go", "test", "-vet=off", "-count=1", "./...")
	fmt.Print(string(out))
	if err != nil {
		fmt.Println("transparency: FAILED")
		return 1
	}
	fmt.Printf("transparency: the repository's suite passes on the instrumented copy (%+v)\n", w.Stats)
	return 0
}
