package coord

import (
	"encoding/json"
	"fmt"
	"os"
	"path/filepath"
	"time"

	"verif/pkg/proto"
)

func Check(id, tier string) int {
	cfg := Props[id]
	if cfg == nil {
		fmt.Fprintf(os.Stderr, "verif: property %s is not claimed by this framework\n", id)
		return 2
	}
	switch id {
	case "C01", "C02", "C03", "C04", "C05", "C06", "C07", "C08", "C09", "C10", "C14", "C19", "C20":
		return CheckCodec(cfg, tier)
	}
	fmt.Fprintf(os.Stderr, "verif: no driver for %s\n", id)
	return 2
}

// ReplayFile rebuilds the programs named in a replay file from their schema text with
// the generator of the current working tree and re-executes the recorded scenario.
// Exit 1 + VIOLATION line iff the recorded violation is reproduced.
func ReplayFile(file string) int {
	b, err := os.ReadFile(file)
	if err != nil {
		fmt.Fprintln(os.Stderr, "verif:", err)
		return 2
	}
	var rp proto.Replay
	if err := json.Unmarshal(b, &rp); err != nil {
		fmt.Fprintln(os.Stderr, "verif: replay file:", err)
		return 2
	}
	switch rp.Property {
	case "C01", "C02", "C03", "C04", "C05", "C06", "C07", "C08", "C09", "C10", "C14", "C19", "C20":
		return replayCodec(&rp, file)
	}
	fmt.Fprintf(os.Stderr, "verif: no replay driver for %s\n", rp.Property)
	return 2
}

func replayCodec(rp *proto.Replay, file string) int {
	w, err := NewWork()
	if err != nil {
		fmt.Fprintln(os.Stderr, "verif:", err)
		return 2
	}
	defer w.Close()
	if err := w.CopyRepo(false); err == nil {
		err = w.PatchGoMod()
	}
	if err == nil {
		instr := codecRepoInstr
		if cfg := Props[rp.Property]; cfg != nil && cfg.RepoInstr != nil {
			instr = cfg.RepoInstr
		}
		err = w.InstrumentRepo(instr)
	}
	if err != nil {
		fmt.Fprintln(os.Stderr, "verif:", err)
		return 2
	}
	var specs []ProgSpec
	for _, p := range rp.Programs {
		masks := p.Masks
		if len(masks) == 0 {
			masks = []int{rp.Scenario.Mask}
		}
		specs = append(specs, ProgSpec{ID: p.ID, Schema: p.Schema, Bop: p.Bop, Masks: masks, Old: p.Old, OldBop: p.OldBop})
	}
	if cfg := Props[rp.Property]; cfg != nil && (cfg.TextOnly || cfg.NoProgs) {
		specs = nil
	}
	if cfg := Props[rp.Property]; cfg != nil && cfg.CLI {
		if err := buildCLIs(w); err != nil {
			fmt.Fprintln(os.Stderr, "verif:", err)
			return 2
		}
	}
	_, node, err := w.BuildPrograms(specs, genInstr, nil)
	if err != nil {
		fmt.Fprintln(os.Stderr, "verif:", err)
		return 2
	}
	os.Setenv("VERIF_KNOWN_FILE", filepath.Join(VerifDir(), "known_findings.json"))
	stdout, stderr, err := runNodeRaw(node, []string{"-replay", file}, 10*time.Minute)
	code := exitCode(err)
	fmt.Print(stdout)
	if rp.Scenario.Kind == "rerun" && code != 0 {
		// the node died again: that is the recorded violation
		fmt.Println(clipS(crashLine(stderr), 300))
		fmt.Printf("VIOLATION property=%s replay=%s\n", rp.Property, file)
		return 1
	}
	switch code {
	case 1:
		fmt.Printf("VIOLATION property=%s replay=%s\n", rp.Property, file)
		return 1
	case 0:
		fmt.Println("replay: the recorded violation does not occur on this tree")
		return 0
	case 3:
		fmt.Println("replay: a different violation occurred (see above)")
		return 0
	}
	fmt.Fprintln(os.Stderr, "verif: replay node failed:", stderr)
	return 2
}
