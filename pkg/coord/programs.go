package coord

import (
	"bytes"
	"encoding/json"
	"fmt"
	"go/ast"
	"go/parser"
	"go/token"
	"os"
	"path/filepath"
	"regexp"
	"sort"
	"strings"

	"verif/pkg/instrument"
	"verif/pkg/schema"
)

// Option mask bits of bebop.GenerateSettings.
const (
	OptUnsafe  = 1
	OptShared  = 2
	OptTags    = 4
	OptPrivate = 8
	OptPointer = 16
)

type ProgSpec struct {
	ID     string         `json:"id"`
	Schema *schema.Schema `json:"schema"`
	Bop    string         `json:"bop"`
	Masks  []int          `json:"masks"`
	// Old is set for version-skew pairs: the reader's schema (ID+"o" packages).
	Old    *schema.Schema `json:"old,omitempty"`
	OldBop string         `json:"old_bop,omitempty"`
}

type Built struct {
	Prog  string `json:"prog"`
	Mask  int    `json:"mask"`
	Old   bool   `json:"old,omitempty"`
	Lib   bool   `json:"lib,omitempty"` // the library package of an importing program (not registered as a node)
	Pkg   string `json:"pkg"`
	OK    bool   `json:"ok"`
	Stage string `json:"stage,omitempty"` // where it was lost: readfile, generate, compile
	Err   string `json:"err,omitempty"`
}

const gentoolSrc = `package main

import (
	"bytes"
	"encoding/json"
	"fmt"
	"os"

	"github.com/200sc/bebop"
)

type job struct {
	Bop, Out, Pkg string
	Mask          int
	Combined      bool
}

type res struct {
	Out      string
	OK       bool
	Stage    string
	Err      string
	Warnings []string
}

func one(j job) (r res) {
	r.Out = j.Out
	defer func() {
		if p := recover(); p != nil {
			r.OK = false
			r.Err = fmt.Sprint("panic: ", p)
		}
	}()
	r.Stage = "readfile"
	f, err := os.Open(j.Bop)
	if err != nil {
		r.Err = err.Error()
		return r
	}
	defer f.Close()
	bf, warns, err := bebop.ReadFile(f)
	r.Warnings = warns
	if err != nil {
		r.Err = err.Error()
		return r
	}
	r.Stage = "generate"
	var buf bytes.Buffer
	mode := bebop.ImportGenerationModeSeparate
	if j.Combined {
		mode = bebop.ImportGenerationModeCombined
	}
	err = bf.Generate(&buf, bebop.GenerateSettings{
		PackageName:               j.Pkg,
		ImportGenerationMode:      mode,
		GenerateUnsafeMethods:     j.Mask&1 != 0,
		SharedMemoryStrings:       j.Mask&2 != 0,
		GenerateFieldTags:         j.Mask&4 != 0,
		PrivateDefinitions:        j.Mask&8 != 0,
		AlwaysUsePointerReceivers: j.Mask&16 != 0,
	})
	if err != nil {
		r.Err = err.Error()
		return r
	}
	if err := os.WriteFile(j.Out, buf.Bytes(), 0o644); err != nil {
		r.Err = err.Error()
		return r
	}
	r.Stage = ""
	r.OK = true
	return r
}

func main() {
	b, err := os.ReadFile(os.Args[1])
	if err != nil {
		panic(err)
	}
	var jobs []job
	if err := json.Unmarshal(b, &jobs); err != nil {
		panic(err)
	}
	out := make([]res, 0, len(jobs))
	for _, j := range jobs {
		out = append(out, one(j))
	}
	json.NewEncoder(os.Stdout).Encode(out)
}
`

type gtJob struct {
	Bop, Out, Pkg string
	Mask          int
	Combined      bool
}
type gtRes struct {
	Out      string
	OK       bool
	Stage    string
	Err      string
	Warnings []string
}

func PkgName(prog string, mask int, old bool) string {
	o := ""
	if old {
		o = "o"
	}
	return fmt.Sprintf("%s%sm%02d", prog, o, mask)
}

// BuildPrograms generates, instruments and compiles every (program, mask) package and
// links the survivors into the node binary. nodeMain is the import path of the harness
// entry package (verif/pkg/harness).
func (w *Work) BuildPrograms(specs []ProgSpec, genOpts instrument.Options, extraImports []string) ([]Built, string, error) {
	if err := os.MkdirAll(filepath.Join(w.H, "bop"), 0o755); err != nil {
		return nil, "", err
	}
	// gentool
	gtDir := filepath.Join(w.Repo, "zz_verif_gentool")
	if err := os.MkdirAll(gtDir, 0o755); err != nil {
		return nil, "", err
	}
	if err := os.WriteFile(filepath.Join(gtDir, "main.go"), []byte(gentoolSrc), 0o644); err != nil {
		return nil, "", err
	}
	gentool := filepath.Join(w.Dir, "gentool")
	if out, err := Run(w.Repo, nil, "go", "build", "-o", gentool, "./zz_verif_gentool"); err != nil {
		return nil, "", fmt.Errorf("building generator from the working tree failed: %v\n%s", err, out)
	}
	var jobs []gtJob
	var built []Built
	for _, sp := range specs {
		bop := filepath.Join(w.H, "bop", sp.ID+".bop")
		if err := os.WriteFile(bop, []byte(sp.Bop), 0o644); err != nil {
			return nil, "", err
		}
		variants := []struct {
			old bool
			bop string
		}{{false, bop}}
		if sp.Old != nil {
			obop := filepath.Join(w.H, "bop", sp.ID+"o.bop")
			if err := os.WriteFile(obop, []byte(sp.OldBop), 0o644); err != nil {
				return nil, "", err
			}
			variants = append(variants, struct {
				old bool
				bop string
			}{true, obop})
		}
		for _, v := range variants {
			for _, m := range sp.Masks {
				pkg := PkgName(sp.ID, m, v.old)
				dir := filepath.Join(w.H, "gen", pkg)
				if err := os.MkdirAll(dir, 0o755); err != nil {
					return nil, "", err
				}
				job := gtJob{Bop: v.bop, Out: filepath.Join(dir, "gen.go"), Pkg: pkg, Mask: m}
				vs := sp.Schema
				if v.old {
					vs = sp.Old
				}
				if vs.HasLib() {
					// the program imports a library file: one library package per mask
					// (never private: namespaced imports are assumed exported), and an
					// importing file that names it
					libPkg := fmt.Sprintf("%slm%02d", sp.ID, m)
					if v.old {
						libPkg = fmt.Sprintf("%solm%02d", sp.ID, m)
					}
					libFile := libPkg + ".bop"
					libPath := filepath.Join(w.H, "bop", libFile)
					appPath := filepath.Join(w.H, "bop", pkg+".bop")
					if err := os.WriteFile(libPath, []byte(vs.PrintLib("verifh/gen/"+libPkg)), 0o644); err != nil {
						return nil, "", err
					}
					if err := os.WriteFile(appPath, []byte(vs.PrintApp(libFile)), 0o644); err != nil {
						return nil, "", err
					}
					job.Bop = appPath
					job.Combined = vs.Combined
					if !vs.Combined {
						libDir := filepath.Join(w.H, "gen", libPkg)
						if err := os.MkdirAll(libDir, 0o755); err != nil {
							return nil, "", err
						}
						jobs = append(jobs, gtJob{Bop: libPath, Out: filepath.Join(libDir, "gen.go"), Pkg: libPkg, Mask: m &^ OptPrivate})
						built = append(built, Built{Prog: sp.ID, Mask: m, Old: v.old, Pkg: libPkg, Lib: true})
					}
				}
				jobs = append(jobs, job)
				built = append(built, Built{Prog: sp.ID, Mask: m, Old: v.old, Pkg: pkg})
			}
		}
	}
	jb, _ := json.Marshal(jobs)
	jobFile := filepath.Join(w.Dir, "genjobs.json")
	if err := os.WriteFile(jobFile, jb, 0o644); err != nil {
		return nil, "", err
	}
	out, err := Run(w.H, nil, gentool, jobFile)
	if err != nil {
		return nil, "", fmt.Errorf("generator run failed: %v\n%s", err, clip(out))
	}
	var results []gtRes
	if i := bytes.IndexByte(out, '['); i >= 0 {
		out = out[i:]
	}
	if err := json.Unmarshal(out, &results); err != nil || len(results) != len(jobs) {
		return nil, "", fmt.Errorf("generator output unreadable: %v\n%s", err, clip(out))
	}
	// harness module
	gomod := "module verifh\n\ngo 1.21\n\nrequire (\n\t" + RepoModule + " v0.0.0\n\tverif v0.0.0\n)\n\nreplace " +
		RepoModule + " => " + w.Repo + "\n\nreplace verif => " + VerifDir() + "\n"
	if err := os.WriteFile(filepath.Join(w.H, "go.mod"), []byte(gomod), 0o644); err != nil {
		return nil, "", err
	}
	if w.Imp == nil {
		w.Imp = instrument.NewImporter(w.Fset, map[string]string{RepoModule: w.Repo, "verif": VerifDir()})
	}
	for i, r := range results {
		b := &built[i]
		if !r.OK {
			b.Stage, b.Err = r.Stage, r.Err
			os.RemoveAll(filepath.Dir(r.Out))
			continue
		}
		dir := filepath.Dir(r.Out)
		if b.Lib {
			st, err := instrument.Dir(dir, "verifh/gen/"+b.Pkg, genOpts, w.Imp, true)
			if err != nil {
				b.Stage, b.Err = "instrument", err.Error()
				continue
			}
			w.Stats.Add(st)
			b.OK = true
			continue
		}
		if err := writeRegistry(dir, b.Pkg); err != nil {
			b.Stage, b.Err = "registry", err.Error()
			os.RemoveAll(dir)
			continue
		}
		st, err := instrument.Dir(dir, "verifh/gen/"+b.Pkg, genOpts, w.Imp, true)
		if err != nil {
			b.Stage, b.Err = "instrument", err.Error()
			os.RemoveAll(dir)
			continue
		}
		w.Stats.Add(st)
		b.OK = true
	}
	// compile everything; packages named in "# path" headers failed
	bout, _ := Run(w.H, nil, "go", "build", "./gen/...")
	failed := map[string]string{}
	cur := ""
	for _, ln := range strings.Split(string(bout), "\n") {
		if strings.HasPrefix(ln, "# ") {
			cur = strings.TrimSpace(strings.TrimPrefix(ln, "# "))
			cur = strings.TrimPrefix(cur, "verifh/gen/")
			if i := strings.IndexByte(cur, ' '); i >= 0 {
				cur = cur[:i]
			}
			continue
		}
		if cur != "" && strings.TrimSpace(ln) != "" && len(failed[cur]) < 600 {
			failed[cur] += strings.TrimSpace(ln) + "\n"
		}
	}
	nOK := 0
	for i := range built {
		b := &built[i]
		if !b.OK {
			continue
		}
		if msg, bad := failed[b.Pkg]; bad {
			b.OK, b.Stage, b.Err = false, "compile", msg
			os.RemoveAll(filepath.Join(w.H, "gen", b.Pkg))
			continue
		}
		nOK++
	}
	// an importing package whose library package was lost is lost with it
	libOK := map[string]bool{}
	for _, b := range built {
		if b.Lib {
			libOK[fmt.Sprintf("%s/%d/%v", b.Prog, b.Mask, b.Old)] = b.OK
		}
	}
	for i := range built {
		b := &built[i]
		if b.Lib || !b.OK {
			continue
		}
		if ok, has := libOK[fmt.Sprintf("%s/%d/%v", b.Prog, b.Mask, b.Old)]; has && !ok {
			b.OK, b.Stage, b.Err = false, "library", "the imported library package was excluded"
			os.RemoveAll(filepath.Join(w.H, "gen", b.Pkg))
			nOK--
		}
	}
	if nOK == 0 && len(specs) > 0 {
		return built, "", fmt.Errorf("no generated package survived compilation:\n%s", clip(bout))
	}
	// node main
	var mb strings.Builder
	mb.WriteString("package main\n\nimport (\n\t\"verif/pkg/harness\"\n")
	for _, b := range built {
		if b.OK && !b.Lib {
			fmt.Fprintf(&mb, "\t%s \"verifh/gen/%s\"\n", b.Pkg, b.Pkg)
		}
	}
	for _, im := range extraImports {
		fmt.Fprintf(&mb, "\t_ %q\n", im)
	}
	mb.WriteString(")\n\nfunc main() {\n")
	for _, b := range built {
		if b.OK && !b.Lib {
			fmt.Fprintf(&mb, "\tharness.Register(%q, %d, %v, %s.VerifTypes())\n", b.Prog, b.Mask, b.Old, b.Pkg)
		}
	}
	mb.WriteString("\tharness.Main()\n}\n")
	nodeDir := filepath.Join(w.H, "node")
	if err := os.MkdirAll(nodeDir, 0o755); err != nil {
		return built, "", err
	}
	if err := os.WriteFile(filepath.Join(nodeDir, "main.go"), []byte(mb.String()), 0o644); err != nil {
		return built, "", err
	}
	node := filepath.Join(w.H, "simnode")
	if out, err := Run(w.H, nil, "go", "build", "-tags", "verifnode", "-o", node, "./node"); err != nil {
		return built, "", fmt.Errorf("linking the simulation node failed: %v\n%s", err, clip(out))
	}
	return built, node, nil
}

func clip(b []byte) string {
	if len(b) > 4000 {
		return string(b[:4000]) + "\n..."
	}
	return string(b)
}

var recordMethods = []string{"MarshalBebop", "MarshalBebopTo", "UnmarshalBebop", "EncodeBebop", "DecodeBebop", "Size"}

var identRe = regexp.MustCompile(`^[A-Za-z_][A-Za-z0-9_]*$`)

// writeRegistry derives reg.go from the AST of the emitted file: every struct type whose
// method set covers bebop.Record gets an entry, with whichever helper functions exist.
func writeRegistry(dir, pkg string) error {
	fset := token.NewFileSet()
	f, err := parser.ParseFile(fset, filepath.Join(dir, "gen.go"), nil, 0)
	if err != nil {
		return fmt.Errorf("emitted file does not parse: %w", err)
	}
	structs := map[string]bool{}
	methods := map[string]map[string]bool{}
	funcs := map[string]bool{}
	for _, d := range f.Decls {
		switch d := d.(type) {
		case *ast.GenDecl:
			for _, sp := range d.Specs {
				if ts, ok := sp.(*ast.TypeSpec); ok {
					if _, ok := ts.Type.(*ast.StructType); ok {
						structs[ts.Name.Name] = true
					}
				}
			}
		case *ast.FuncDecl:
			if d.Recv == nil {
				funcs[d.Name.Name] = true
				continue
			}
			if len(d.Recv.List) != 1 {
				continue
			}
			t := d.Recv.List[0].Type
			if st, ok := t.(*ast.StarExpr); ok {
				t = st.X
			}
			if id, ok := t.(*ast.Ident); ok {
				if methods[id.Name] == nil {
					methods[id.Name] = map[string]bool{}
				}
				methods[id.Name][d.Name.Name] = true
			}
		}
	}
	var names []string
	for n := range structs {
		ok := true
		for _, m := range recordMethods {
			if !methods[n][m] {
				ok = false
			}
		}
		if ok && identRe.MatchString(n) {
			names = append(names, n)
		}
	}
	sort.Strings(names)
	var b strings.Builder
	fmt.Fprintf(&b, "package %s\n\nimport (\n\t\"io\"\n\n\t\"github.com/200sc/bebop/iohelp\"\n\t\"verif/pkg/reg\"\n)\n\n", pkg)
	b.WriteString("var _ = iohelp.NewErrorReader\nvar _ io.Reader\n\n")
	b.WriteString("func VerifTypes() []reg.Type {\n\treturn []reg.Type{\n")
	for _, n := range names {
		fmt.Fprintf(&b, "\t\t{\n\t\t\tGoName: %q,\n\t\t\tNew: func() reg.Record { return &%s{} },\n", n, n)
		for _, mk := range []string{"Make", "make"} {
			if funcs[mk+n] {
				fmt.Fprintf(&b, "\t\t\tMake: func(r io.Reader) (reg.Record, error) { v, err := %s%s(iohelp.NewErrorReader(r)); return &v, err },\n", mk, n)
			}
			if funcs[mk+n+"FromBytes"] {
				fmt.Fprintf(&b, "\t\t\tMakeFromBytes: func(b []byte) (reg.Record, error) { v, err := %s%sFromBytes(b); return &v, err },\n", mk, n)
			}
		}
		for _, mk := range []string{"MustMake", "mustMake"} {
			if funcs[mk+n+"FromBytes"] {
				fmt.Fprintf(&b, "\t\t\tMustMakeFromBytes: func(b []byte) reg.Record { v := %s%sFromBytes(b); return &v },\n", mk, n)
			}
		}
		for _, nw := range []string{"New", "new"} {
			if funcs[nw+n] {
				fmt.Fprintf(&b, "\t\t\tNewFunc: %s%s,\n", nw, n)
			}
		}
		if methods[n]["MustUnmarshalBebop"] {
			fmt.Fprintf(&b, "\t\t\tMustUnmarshal: func(r reg.Record, b []byte) { r.(*%s).MustUnmarshalBebop(b) },\n", n)
		}
		b.WriteString("\t\t},\n")
	}
	b.WriteString("\t}\n}\n")
	return os.WriteFile(filepath.Join(dir, "reg.go"), []byte(b.String()), 0o644)
}
