// Package proto holds the data exchanged between the coordinator, the simulation nodes and
// replay files. It has no dependency on 200sc/bebop.
package proto

import (
	"encoding/json"

	"verif/pkg/schema"
	"verif/pkg/simnet"
	"verif/pkg/val"
)

// ---------------------------------------------------------------------------------
// batch description (written by the coordinator)

type BatchProg struct {
	Masks  []int          `json:"masks,omitempty"`
	ID     string         `json:"id"`
	Schema *schema.Schema `json:"schema"`
	Bop    string         `json:"bop"`
	Old    *schema.Schema `json:"old,omitempty"`
	OldBop string         `json:"old_bop,omitempty"`
}

type Batch struct {
	Property string            `json:"property"`
	Tier     string            `json:"tier"`
	Seed     uint64            `json:"seed"`
	Runs     int               `json:"runs"`
	Programs []BatchProg       `json:"programs"`
	Params   map[string]int    `json:"params,omitempty"`
	Known    []KnownFinding    `json:"known,omitempty"`
	SrcRoot  string            `json:"src_root,omitempty"` // where generated sources live (for statement text)
	Extra    map[string]string `json:"extra,omitempty"`
}

// ---------------------------------------------------------------------------------
// scenario: everything that decides a run, as data

type MapOrder struct {
	Strategy int    `json:"strategy"`
	Seed     uint64 `json:"seed,omitempty"`
	// Fields: a reference peer also permutes the order in which it writes the fields of
	// every message (the wire format prescribes none).
	Fields bool `json:"fields,omitempty"`
}

type Dirty struct {
	Fill string `json:"fill"` // zero | ff | random
	Pad  int    `json:"pad"`  // bytes of slack beyond Size()
	Seed uint64 `json:"seed,omitempty"`
}

type Scenario struct {
	Kind     string `json:"kind"`
	Prog     string `json:"prog"`
	Mask     int    `json:"mask"`
	Type     string `json:"type"`
	PeerMask int    `json:"peer_mask,omitempty"` // receiving build's options (C09); -1 = same
	OldPeer  bool   `json:"old_peer,omitempty"`  // receiver runs the older schema (C04)

	Value   *val.Value  `json:"value,omitempty"`
	Values  []val.Value `json:"values,omitempty"` // record histories (C05)
	Types   []string    `json:"types,omitempty"`
	Encoder string      `json:"encoder,omitempty"` // marshal | marshalto | encode | reference
	Decoder string      `json:"decoder,omitempty"` // unmarshal | mustunmarshal | decode | make | makefrombytes | mustmakefrombytes
	Reader  string      `json:"reader,omitempty"`  // plain | bytereader | errorreader | bufio
	Writer  string      `json:"writer,omitempty"`  // plain | errorwriter

	Order  MapOrder           `json:"order"`
	Dirty  *Dirty             `json:"dirty,omitempty"`
	Sched  *simnet.Schedule   `json:"sched,omitempty"`
	RFault *simnet.ReadFault  `json:"rfault,omitempty"`
	WFault *simnet.WriteFault `json:"wfault,omitempty"`
	Cut    int                `json:"cut,omitempty"`
	Giant  *Giant             `json:"giant,omitempty"`
	// Reuse / Prefill: the receiving record is not fresh. It has been decoded into before:
	// with Reuse the complete valid encoding of Value, with Prefill these bytes
	// (UnmarshalBebop, result ignored), and is then handed to the decoder under test.
	Reuse   bool   `json:"reuse,omitempty"`
	Prefill []byte `json:"prefill,omitempty"`
	// SpareCap: the byte decoder's input is a short view of a larger buffer: the rest of the
	// valid encoding sits in its spare capacity (len = Cut, cap = the complete length).
	SpareCap bool `json:"spare_cap,omitempty"`
	// Again: the receiver has read another stream to its END before (its last DecodeBebop
	// there failed: nothing was left), and only then reads this history.
	Again bool `json:"again,omitempty"`
	// Overlap > 0 (history scenarios): while the Overlap-th Read of the first record's decode
	// is in progress, ANOTHER caller decodes the whole history from a stream of its own
	// (two decoders overlap, switching at a Read boundary).
	Overlap int `json:"overlap,omitempty"`
	// EncOps: a history of EncodeBebop calls by one or two callers onto two destinations
	EncOps   []EncOp           `json:"enc_ops,omitempty"`
	Input    []byte            `json:"input,omitempty"` // explicit bytes (corruption scenarios)
	Mutation string            `json:"mutation,omitempty"`
	Perm     []int             `json:"perm,omitempty"`     // map-entry permutation for reference-peer encodings
	Trail    int               `json:"trail,omitempty"`    // guard bytes after the last record
	Tasks    []TaskSpec        `json:"tasks,omitempty"`    // concurrent callers (C14)
	Switches []Switch          `json:"switches,omitempty"` // baton schedule: at global step s run task t
	Ops      []FileOp          `json:"ops,omitempty"`      // CLI scenarios (C19)
	Files    map[string]string `json:"files,omitempty"`    // workspace content before the run (C19)
	Args     []string          `json:"args,omitempty"`
	Extra    map[string]string `json:"extra,omitempty"`
}

// Giant turns the valid encoding of the scenario's value into a strict prefix of the valid
// encoding of a GIANT value: the Which-th array/map count (among those whose elements have
// a fixed wire size and that hold at least one element) becomes N, every enclosing body
// length grows accordingly, and the cut stays inside the elements that are present. The
// missing N-n elements (copies of the first) are never materialised.
type Giant struct {
	Which int `json:"which"`
	N     int `json:"n"`
}

// EncOp is one EncodeBebop call of record Values[Rec] onto destination Dest (0 or 1),
// either straight onto the destination or through the ErrorWriter the caller made for that
// destination at the start and keeps using (Held). With Inner set, ANOTHER caller's encode
// onto the other destination runs while the At-th Write call (1-based) of this encode is
// in progress: two encoders overlap, switching at a Write boundary - the only point where
// a synchronous encoder can be overtaken.
type EncOp struct {
	Rec   int    `json:"rec"`
	Dest  int    `json:"dest"`
	Held  bool   `json:"held,omitempty"`
	At    int    `json:"at,omitempty"`
	Inner *EncOp `json:"inner,omitempty"`
}

// TaskSpec is one concurrent caller of the library (C14).
type TaskSpec struct {
	Op       string   `json:"op"` // generate | validate | format | readfile
	Mask     int      `json:"mask,omitempty"`
	Combined bool     `json:"combined,omitempty"`
	MapOrder MapOrder `json:"order"`
	// Repeat makes the caller issue the same call Repeat more times, one after the other
	// (a caller that starts a call after another caller finished one).
	Repeat int `json:"repeat,omitempty"`
}

// Switch hands the baton to Task at the first yield point whose global step is >= Step.
type Switch struct {
	Step int `json:"s"`
	Task int `json:"t"`
}

// FileOp is a fault injected into a CLI run (C19): at the Index-th os operation.
type FileOp struct {
	Index   int    `json:"index"`
	Kind    string `json:"kind"`              // error | torn | crash-before | crash-after
	Errno   string `json:"errno,omitempty"`   // EACCES, ENOSPC, EIO, ...
	Partial int    `json:"partial,omitempty"` // bytes written by a torn write
}

type Violation struct {
	Property  string            `json:"property"`
	Class     string            `json:"class"`
	Signature string            `json:"signature"`
	Detail    string            `json:"detail"`
	Stack     string            `json:"stack_top,omitempty"`
	Stmt      string            `json:"stmt,omitempty"`
	Elem      string            `json:"elem,omitempty"` // element kind the fault landed on
	Facts     map[string]string `json:"facts,omitempty"`
}

type ReplayProg struct {
	ID     string         `json:"id"`
	Bop    string         `json:"bop"`
	Schema *schema.Schema `json:"schema"`
	Old    *schema.Schema `json:"old,omitempty"`
	OldBop string         `json:"old_bop,omitempty"`
	Masks  []int          `json:"masks"`
}

type Replay struct {
	Format    string         `json:"format"`
	Property  string         `json:"property"`
	Seed      uint64         `json:"seed"`
	Run       int            `json:"run"`
	Programs  []ReplayProg   `json:"programs"`
	Scenario  Scenario       `json:"scenario"`
	Violation Violation      `json:"violation"`
	Shrunk    int            `json:"shrink_steps"`
	Known     string         `json:"known_finding,omitempty"`
	Params    map[string]int `json:"params,omitempty"`
	// ProgramCut says how the program text was minimised ("70 -> 3 definitions").
	ProgramCut string `json:"program_minimised,omitempty"`
	verified   bool
}

// Report is one line of node output.
type Report struct {
	Kind      string            `json:"kind"` // violation | summary | runlog
	Run       int               `json:"run,omitempty"`
	Replay    *Replay           `json:"replay,omitempty"`
	From      int               `json:"from,omitempty"`
	To        int               `json:"to,omitempty"`
	Counters  map[string]int64  `json:"counters,omitempty"`
	States    []uint64          `json:"states,omitempty"`
	LogHash   string            `json:"log_hash,omitempty"`
	RunHashes []string          `json:"run_hashes,omitempty"`
	Samples   []json.RawMessage `json:"samples,omitempty"`
}

// KnownFinding is one entry of /verif/known_findings.json. An open entry matches a
// violation when every non-empty member matches: Property and Class exactly, Decoder /
// Encoder / Kind (scenario kind) exactly, SigContains / StmtContains / DetailContains as
// substrings, and every key of Facts equal to the violation's fact of that name.
type KnownFinding struct {
	ID             string            `json:"id"`
	Property       string            `json:"property"`
	Status         string            `json:"status"` // open | fixed
	Commit         string            `json:"commit,omitempty"`
	What           string            `json:"what"`
	Class          string            `json:"class,omitempty"`
	Kind           string            `json:"kind,omitempty"`
	Decoder        string            `json:"decoder,omitempty"`
	Encoder        string            `json:"encoder,omitempty"`
	SigContains    string            `json:"sig_contains,omitempty"`
	StmtContains   string            `json:"stmt_contains,omitempty"`
	DetailContains string            `json:"detail_contains,omitempty"`
	Facts          map[string]string `json:"facts,omitempty"`
	Blinds         string            `json:"blinds,omitempty"` // the region this entry hides, stated explicitly
}

// Match reports whether an open finding covers the violation of a replay.
func (k *KnownFinding) Match(rp *Replay) bool {
	if k.Status != "open" || k.Property != rp.Property {
		return false
	}
	v := &rp.Violation
	sc := &rp.Scenario
	if k.Class != "" && k.Class != v.Class {
		return false
	}
	if k.Kind != "" && k.Kind != sc.Kind {
		return false
	}
	if k.Decoder != "" && k.Decoder != sc.Decoder {
		return false
	}
	if k.Encoder != "" && k.Encoder != sc.Encoder {
		return false
	}
	if k.SigContains != "" && !contains(v.Signature, k.SigContains) {
		return false
	}
	if k.StmtContains != "" && !contains(v.Stmt, k.StmtContains) {
		return false
	}
	if k.DetailContains != "" && !contains(v.Detail, k.DetailContains) {
		return false
	}
	for key, want := range k.Facts {
		if v.Facts[key] != want {
			return false
		}
	}
	return true
}

func contains(s, sub string) bool {
	for i := 0; i+len(sub) <= len(s); i++ {
		if s[i:i+len(sub)] == sub {
			return true
		}
	}
	return false
}

// Extra / MarkVerified track coordinator-side bookkeeping that is not serialised.
func (r *Replay) Extra(k string) bool { return k == "verified" && r.verified }
func (r *Replay) MarkVerified()       { r.verified = true }
