// Package refcodec is an independent implementation of the Bebop wire format over the
// simulator's schema AST and value trees, written from the format description:
// little-endian fixed-width scalars; u32-length-prefixed strings, arrays and maps; GUIDs
// in the .NET mixed-endian field order; message = u32 body length + (index, value)* + 0;
// union = u32 length (excluding the discriminator) + discriminator + body; enum = its
// base integer; date = i64 count of 100ns ticks with 0 <-> the zero time.
// It shares no code with 200sc/bebop.
package refcodec

import (
	"errors"
	"fmt"

	"verif/pkg/schema"
	"verif/pkg/val"
)

// Span kinds.
const (
	SScalar   = "scalar"
	SCount    = "count"    // array / map element count
	SStrLen   = "strlen"   // string length prefix
	SBodyLen  = "bodylen"  // message length prefix
	SUnionLen = "unionlen" // union length prefix
	SIndex    = "index"    // message field index
	SDisc     = "disc"     // union discriminator
	STerm     = "term"     // message terminator
	SPayload  = "payload"  // string bytes / byte-array data
)

type Span struct {
	Start int    `json:"s"`
	End   int    `json:"e"`
	Kind  string `json:"k"`
	Path  string `json:"p,omitempty"`
	// Min is the minimum wire size of one element for SCount spans (budget computations).
	Min int `json:"m,omitempty"`
	// Fixed is the wire size of one element / entry for SCount spans when every element has
	// the same size and a collection of 2^24 distinct ones exists (map keys of 4 bytes and
	// more), 0 otherwise; N is the count written.
	Fixed int `json:"f,omitempty"`
	N     int `json:"n,omitempty"`
}

type enc struct {
	s     *schema.Schema
	buf   []byte
	spans []Span
	track bool
}

func (e *enc) span(start int, kind, path string) {
	if e.track {
		e.spans = append(e.spans, Span{Start: start, End: len(e.buf), Kind: kind, Path: path})
	}
}

func (e *enc) u(v uint64, n int) {
	for i := 0; i < n; i++ {
		e.buf = append(e.buf, byte(v>>(8*uint(i))))
	}
}

// Encode returns the wire encoding of v (of type t) with map entries in tree order.
func Encode(s *schema.Schema, t schema.Type, v val.Value) []byte {
	e := &enc{s: s}
	e.typ(t, v, "$")
	return e.buf
}

// EncodeSpans also returns the offset map.
func EncodeSpans(s *schema.Schema, t schema.Type, v val.Value) ([]byte, []Span) {
	e := &enc{s: s, track: true}
	e.typ(t, v, "$")
	return e.buf, e.spans
}

// GiantPrefix rewrites enc (a valid encoding with offset map spans) into the first bytes of
// the valid encoding in which the which-th eligible count is n: the count itself and every
// body length that covers it are patched. It returns the patched copy, cut off behind the last element
// that is present, and the span of the count; ok is false when there is no such
// count or a length would leave 31 bits.
func GiantPrefix(enc []byte, spans []Span, which, n int) (out []byte, count *Span, ok bool) {
	var cs *Span
	k := 0
	for i := range spans {
		sp := &spans[i]
		if sp.Kind == SCount && sp.Fixed > 0 && sp.N >= 1 {
			if k == which {
				cs = sp
				break
			}
			k++
		}
	}
	if cs == nil || n <= cs.N {
		return nil, nil, false
	}
	delta := int64(n-cs.N) * int64(cs.Fixed)
	if delta+int64(len(enc)) >= 1<<31 {
		return nil, nil, false
	}
	out = append([]byte(nil), enc...)
	put := func(at int, v uint32) {
		out[at], out[at+1], out[at+2], out[at+3] = byte(v), byte(v>>8), byte(v>>16), byte(v>>24)
	}
	get := func(at int) uint32 {
		return uint32(enc[at]) | uint32(enc[at+1])<<8 | uint32(enc[at+2])<<16 | uint32(enc[at+3])<<24
	}
	for _, sp := range spans {
		if sp.Kind != SBodyLen && sp.Kind != SUnionLen {
			continue
		}
		l := int(get(sp.Start))
		from := sp.End
		if sp.Kind == SUnionLen {
			from = sp.End + 1 // the length of a union excludes its discriminator byte
		}
		if sp.Start < cs.Start && cs.Start < from+l {
			put(sp.Start, uint32(int64(l)+delta))
		}
	}
	put(cs.Start, uint32(n))
	return out[:cs.End+cs.N*cs.Fixed], cs, true
}

// EligibleGiants counts the counts GiantPrefix can inflate.
func EligibleGiants(spans []Span) int {
	k := 0
	for _, sp := range spans {
		if sp.Kind == SCount && sp.Fixed > 0 && sp.N >= 1 {
			k++
		}
	}
	return k
}

var guidPerm = [16]int{3, 2, 1, 0, 5, 4, 7, 6, 8, 9, 10, 11, 12, 13, 14, 15}

func (e *enc) typ(t schema.Type, v val.Value, path string) {
	switch {
	case t.Array != nil:
		st := len(e.buf)
		e.u(uint64(len(v.Elems)), 4)
		if e.track {
			e.spans = append(e.spans, Span{Start: st, End: len(e.buf), Kind: SCount, Path: path, Min: e.s.MinWire(*t.Array), Fixed: e.s.FixedWire(*t.Array), N: len(v.Elems)})
		}
		if t.Array.Prim == "byte" || t.Array.Prim == "uint8" {
			st = len(e.buf)
			for _, el := range v.Elems {
				e.buf = append(e.buf, byte(el.U))
			}
			if len(v.Elems) > 0 {
				e.span(st, SPayload, path)
			}
			return
		}
		for i, el := range v.Elems {
			e.typ(*t.Array, el, fmt.Sprintf("%s[%d]", path, i))
		}
	case t.MapV != nil:
		st := len(e.buf)
		e.u(uint64(len(v.Keys)), 4)
		if e.track {
			fx := 0
			if ks, vs := e.s.FixedWire(schema.Type{Prim: t.MapK}), e.s.FixedWire(*t.MapV); ks >= 4 && vs > 0 {
				fx = ks + vs
			}
			e.spans = append(e.spans, Span{Start: st, End: len(e.buf), Kind: SCount, Path: path,
				Min: e.s.MinWire(schema.Type{Prim: t.MapK}) + e.s.MinWire(*t.MapV), Fixed: fx, N: len(v.Keys)})
		}
		for i := range v.Keys {
			e.typ(schema.Type{Prim: t.MapK}, v.Keys[i], fmt.Sprintf("%s{k%d}", path, i))
			e.typ(*t.MapV, v.Vals[i], fmt.Sprintf("%s{v%d}", path, i))
		}
	case t.Prim != "":
		e.prim(t.Prim, v, path)
	default:
		d := e.s.Lookup(t.Named)
		if d == nil {
			panic("refcodec: unknown type " + t.Named)
		}
		e.def(d, v, path)
	}
}

func (e *enc) prim(p string, v val.Value, path string) {
	st := len(e.buf)
	switch p {
	case "bool", "byte", "uint8":
		e.u(v.U, 1)
	case "uint16", "int16":
		e.u(v.U, 2)
	case "uint32", "int32", "float32":
		e.u(v.U, 4)
	case "uint64", "int64", "float64":
		e.u(v.U, 8)
	case "date":
		tk := int64(0)
		if v.Date != nil {
			tk = v.Date.Ticks()
		}
		e.u(uint64(tk), 8)
	case "guid":
		g := v.B
		if len(g) != 16 {
			g = append(append([]byte{}, g...), make([]byte, 16)...)[:16]
		}
		for i := 0; i < 16; i++ {
			e.buf = append(e.buf, g[guidPerm[i]])
		}
	case "string":
		e.u(uint64(len(v.B)), 4)
		e.span(st, SStrLen, path)
		st = len(e.buf)
		e.buf = append(e.buf, v.B...)
		if len(v.B) > 0 {
			e.span(st, SPayload, path)
		}
		return
	}
	e.span(st, SScalar, path)
}

func (e *enc) def(d *schema.Def, v val.Value, path string) {
	switch d.Kind {
	case schema.KEnum:
		st := len(e.buf)
		e.u(v.U, schema.PrimSize(d.BaseType()))
		e.span(st, SScalar, path)
	case schema.KStruct:
		for i, f := range d.Fields {
			var fv val.Value
			if i < len(v.Elems) {
				fv = v.Elems[i]
			}
			e.typ(f.Type, fv, path+"."+f.Name)
		}
	case schema.KMessage:
		st := len(e.buf)
		e.u(0, 4)
		e.span(st, SBodyLen, path)
		for _, mf := range v.Fields {
			fd := val.MsgFieldDef(d, mf.Index)
			if fd == nil {
				panic(fmt.Sprintf("refcodec: message %s has no field %d", d.Name, mf.Index))
			}
			is := len(e.buf)
			e.buf = append(e.buf, mf.Index)
			e.span(is, SIndex, path+"."+fd.Name)
			e.typ(fd.Type, mf.V, path+"."+fd.Name)
		}
		ts := len(e.buf)
		e.buf = append(e.buf, 0)
		e.span(ts, STerm, path)
		n := uint32(len(e.buf) - st - 4)
		e.buf[st], e.buf[st+1], e.buf[st+2], e.buf[st+3] = byte(n), byte(n>>8), byte(n>>16), byte(n>>24)
	case schema.KUnion:
		st := len(e.buf)
		e.u(0, 4)
		e.span(st, SUnionLen, path)
		if v.Body == nil {
			return // unpopulated union: length 0, nothing else
		}
		ds := len(e.buf)
		e.buf = append(e.buf, v.Disc)
		e.span(ds, SDisc, path)
		for _, b := range d.Branches {
			if b.Disc == v.Disc {
				e.def(b.Def, *v.Body, fmt.Sprintf("%s<%s>", path, b.Def.Name))
			}
		}
		n := uint32(len(e.buf) - st - 5)
		e.buf[st], e.buf[st+1], e.buf[st+2], e.buf[st+3] = byte(n), byte(n>>8), byte(n>>16), byte(n>>24)
	}
}

// ---------------------------------------------------------------------------------
// strict decoder

var ErrShort = errors.New("refcodec: short input")

type dec struct {
	s   *schema.Schema
	buf []byte
	at  int
	// Lenient: unknown message indices end the message (remaining body skipped) instead
	// of being an error; used when decoding with an older schema.
	lenient bool
}

func (d *dec) need(n int) error {
	if n < 0 || d.at+n > len(d.buf) {
		return ErrShort
	}
	return nil
}

func (d *dec) u(n int) (uint64, error) {
	if err := d.need(n); err != nil {
		return 0, err
	}
	var v uint64
	for i := 0; i < n; i++ {
		v |= uint64(d.buf[d.at+i]) << (8 * uint(i))
	}
	d.at += n
	return v, nil
}

// Decode decodes exactly one value of type t from buf and returns it with the number of
// bytes consumed. Map entries keep wire order. Unknown message indices, unknown
// discriminators and inconsistent length prefixes are errors.
func Decode(s *schema.Schema, t schema.Type, buf []byte) (val.Value, int, error) {
	d := &dec{s: s, buf: buf}
	v, err := d.typ(t)
	return v, d.at, err
}

// DecodeLenient is Decode for a reader on an older schema: an unknown message index ends
// that message and its remaining body is skipped by the length prefix.
func DecodeLenient(s *schema.Schema, t schema.Type, buf []byte) (val.Value, int, error) {
	d := &dec{s: s, buf: buf, lenient: true}
	v, err := d.typ(t)
	return v, d.at, err
}

func (d *dec) typ(t schema.Type) (val.Value, error) {
	switch {
	case t.Array != nil:
		n, err := d.u(4)
		if err != nil {
			return val.Value{}, err
		}
		min := d.s.MinWire(*t.Array)
		if min > 0 && int(n) > (len(d.buf)-d.at)/min {
			return val.Value{}, ErrShort
		}
		v := val.Value{}
		for i := uint64(0); i < n; i++ {
			e, err := d.typ(*t.Array)
			if err != nil {
				return v, err
			}
			v.Elems = append(v.Elems, e)
		}
		return v, nil
	case t.MapV != nil:
		n, err := d.u(4)
		if err != nil {
			return val.Value{}, err
		}
		min := d.s.MinWire(schema.Type{Prim: t.MapK}) + d.s.MinWire(*t.MapV)
		if int(n) > (len(d.buf)-d.at)/min {
			return val.Value{}, ErrShort
		}
		v := val.Value{}
		for i := uint64(0); i < n; i++ {
			k, err := d.typ(schema.Type{Prim: t.MapK})
			if err != nil {
				return v, err
			}
			e, err := d.typ(*t.MapV)
			if err != nil {
				return v, err
			}
			v.Keys = append(v.Keys, k)
			v.Vals = append(v.Vals, e)
		}
		return v, nil
	case t.Prim != "":
		return d.prim(t.Prim)
	}
	def := d.s.Lookup(t.Named)
	if def == nil {
		return val.Value{}, fmt.Errorf("refcodec: unknown type %s", t.Named)
	}
	return d.def(def)
}

func (d *dec) prim(p string) (val.Value, error) {
	switch p {
	case "bool", "byte", "uint8":
		u, err := d.u(1)
		return val.Value{U: u}, err
	case "uint16", "int16":
		u, err := d.u(2)
		return val.Value{U: u}, err
	case "uint32", "int32", "float32":
		u, err := d.u(4)
		return val.Value{U: u}, err
	case "uint64", "int64", "float64":
		u, err := d.u(8)
		return val.Value{U: u}, err
	case "date":
		u, err := d.u(8)
		if err != nil {
			return val.Value{}, err
		}
		if u == 0 {
			return val.Value{Date: &val.Date{Zero: true}}, nil
		}
		return val.Value{Date: &val.Date{Nanos: int64(u) * 100}}, nil
	case "guid":
		if err := d.need(16); err != nil {
			return val.Value{}, err
		}
		g := make([]byte, 16)
		for i := 0; i < 16; i++ {
			g[guidPerm[i]] = d.buf[d.at+i]
		}
		d.at += 16
		return val.Value{B: g}, nil
	case "string":
		n, err := d.u(4)
		if err != nil {
			return val.Value{}, err
		}
		if err := d.need(int(n)); err != nil {
			return val.Value{}, err
		}
		b := append([]byte{}, d.buf[d.at:d.at+int(n)]...)
		d.at += int(n)
		return val.Value{B: b}, nil
	}
	return val.Value{}, fmt.Errorf("refcodec: unknown primitive %s", p)
}

func (d *dec) def(def *schema.Def) (val.Value, error) {
	switch def.Kind {
	case schema.KEnum:
		u, err := d.u(schema.PrimSize(def.BaseType()))
		return val.Value{U: u}, err
	case schema.KStruct:
		v := val.Value{}
		for _, f := range def.Fields {
			e, err := d.typ(f.Type)
			if err != nil {
				return v, err
			}
			v.Elems = append(v.Elems, e)
		}
		return v, nil
	case schema.KMessage:
		n, err := d.u(4)
		if err != nil {
			return val.Value{}, err
		}
		if err := d.need(int(n)); err != nil {
			return val.Value{}, err
		}
		end := d.at + int(n)
		v := val.Value{}
		for {
			if d.at >= end {
				return v, fmt.Errorf("refcodec: message %s not terminated within its body", def.Name)
			}
			idx := d.buf[d.at]
			d.at++
			if idx == 0 {
				break
			}
			fd := val.MsgFieldDef(def, idx)
			if fd == nil {
				if d.lenient {
					d.at = end
					return v, nil
				}
				return v, fmt.Errorf("refcodec: message %s unknown index %d", def.Name, idx)
			}
			e, err := d.typ(fd.Type)
			if err != nil {
				return v, err
			}
			if d.at > end {
				return v, fmt.Errorf("refcodec: message %s field %d overruns body", def.Name, idx)
			}
			v.Fields = append(v.Fields, val.MsgField{Index: idx, V: e})
		}
		if d.at != end {
			return v, fmt.Errorf("refcodec: message %s body length %d but terminator at %d", def.Name, n, d.at-(end-int(n)))
		}
		return v, nil
	case schema.KUnion:
		n, err := d.u(4)
		if err != nil {
			return val.Value{}, err
		}
		if err := d.need(int(n) + 1); err != nil {
			return val.Value{}, err
		}
		end := d.at + int(n) + 1
		disc := d.buf[d.at]
		d.at++
		for _, b := range def.Branches {
			if b.Disc == disc {
				body, err := d.def(b.Def)
				if err != nil {
					return val.Value{}, err
				}
				if d.at != end {
					if d.lenient && d.at < end {
						d.at = end
					} else {
						return val.Value{}, fmt.Errorf("refcodec: union %s length %d but body ends at %d", def.Name, n, d.at-(end-int(n)-1))
					}
				}
				return val.Value{Disc: disc, Body: &body}, nil
			}
		}
		if d.lenient {
			d.at = end
			return val.Value{}, nil
		}
		return val.Value{}, fmt.Errorf("refcodec: union %s unknown discriminator %d", def.Name, disc)
	}
	return val.Value{}, nil
}

// SpanAt returns the innermost span covering byte offset off, or nil.
func SpanAt(spans []Span, off int) *Span {
	var best *Span
	for i := range spans {
		s := &spans[i]
		if off >= s.Start && off < s.End {
			if best == nil || (s.End-s.Start) <= (best.End-best.Start) {
				best = s
			}
		}
	}
	return best
}
