package schema

import "verif/pkg/prng"

// Evolved is a pair of schema versions: New extends messages of Old with fields of fresh
// higher indices and/or still sends fields that Old has marked deprecated.
type Evolved struct {
	Old, New *Schema
	// Changed lists the messages that differ between the versions.
	Changed []string
}

// Evolve derives a version pair from s. The input is used as the basis of both versions.
// It returns nil when s has no message to evolve.
func Evolve(s *Schema, r *prng.Rand) *Evolved {
	old := s.Clone()
	nw := s.Clone()
	ev := &Evolved{Old: old, New: nw}
	nm := &namer{r: r.Fork("names"), used: map[string]bool{}}
	for _, d := range nw.Records() {
		nm.used[lower(d.Name)] = true
		for _, f := range d.Fields {
			nm.used[lower(f.Name)] = true
		}
	}
	var msgs []*Def
	for _, d := range nw.Records() {
		if d.Kind == KMessage {
			msgs = append(msgs, d)
		}
	}
	if len(msgs) == 0 {
		return nil
	}
	g := &gen{r: r, nm: nm, s: nw, cfg: GenConfig{MaxDefs: 1, MaxFields: 3, MaxDepth: 1}}
	// gl draws types for messages of the imported file, which can only name its own definitions
	gl := &gen{r: r, nm: nm, s: nw, cfg: GenConfig{MaxDefs: 1, MaxFields: 3, MaxDepth: 1}}
	for _, d := range nw.Defs {
		for _, x := range []*gen{g, gl} {
			if x == gl && !d.Imported {
				continue
			}
			switch d.Kind {
			case KEnum:
				x.enums = append(x.enums, d.Name)
			case KStruct:
				x.structs = append(x.structs, d.Name)
			case KMessage:
				x.messages = append(x.messages, d.Name)
			case KUnion:
				x.unions = append(x.unions, d.Name)
			}
		}
	}
	for _, m := range msgs {
		if !r.Chance(3, 4) && len(ev.Changed) > 0 {
			continue
		}
		om := old.Lookup(m.Name)
		changed := false
		// (a) the reader marks as deprecated a field the sender still transmits
		for i := range om.Fields {
			if !om.Fields[i].Deprecated && r.Chance(1, 4) {
				om.Fields[i].Deprecated = true
				changed = true
			}
			if om.Fields[i].Deprecated && m.Fields[i].Deprecated && r.Bool() {
				// a field deprecated on both sides is never sent; half of the time the newer
				// sender sends it again (the other half it stays deprecated on both sides, so
				// that senders which must SKIP a populated field stay in these populations)
				m.Fields[i].Deprecated = false
				changed = true
			}
		}
		// (b) the sender adds fields with fresh, higher indices
		max := 0
		for _, f := range m.Fields {
			if int(f.Index) > max {
				max = int(f.Index)
			}
		}
		add := r.Range(1, 3)
		for k := 0; k < add && max < 255; k++ {
			step := 1
			if r.Chance(1, 3) {
				step = r.Range(1, 255-max)
			}
			max += step
			tg := g
			if m.Imported {
				tg = gl
			}
			f := Field{Name: nm.fresh(false), Index: uint8(max), Type: tg.fieldType(0, KMessage, m.Name)}
			m.Fields = append(m.Fields, f)
			changed = true
		}
		if changed {
			ev.Changed = append(ev.Changed, m.Name)
		}
	}
	old.index()
	nw.index()
	if len(ev.Changed) == 0 {
		return nil
	}
	// plant an evolved top-level message in every container context, each followed by a
	// sentinel field, identically in both versions
	var top string
	for _, n := range ev.Changed {
		for _, d := range nw.Defs {
			if d.Name == n && d.Kind == KMessage {
				top = n
			}
		}
	}
	// an evolved message of the imported file is also wrapped by structs of that file, which
	// the importing file then uses with data following
	var ltop string
	for _, n := range ev.Changed {
		for _, d := range nw.Defs {
			if d.Name == n && d.Kind == KMessage && d.Imported {
				ltop = n
			}
		}
	}
	if ltop != "" {
		m := N(ltop)
		// (no maps whose values are imported records: generated code for those does not
		// compile in separate mode, which would exclude the whole program)
		wrap, wrapA := nm.fresh(true), nm.fresh(true)
		user := []string{nm.fresh(true), nm.fresh(true), nm.fresh(true), nm.fresh(true)}
		f := []string{nm.fresh(false), nm.fresh(false), nm.fresh(false)}
		mk := func() []*Def {
			imp := func(d *Def) *Def { d.Imported = true; return d }
			return []*Def{
				imp(St(wrap, F(f[0], m), F(f[1], P("byte")))),
				imp(St(wrapA, F(f[0], A(m)))),
				St(user[0], F(f[0], N(wrap)), F(f[1], P("uint32"))),
				St(user[1], F(f[0], A(N(wrap))), F(f[1], N(wrapA)), F(f[2], P("string"))),
				Msg(user[2], MF(1, f[0], N(wrapA)), MF(2, f[1], P("uint32"))),
				St(user[3], F(f[0], N(wrapA)), F(f[1], N(wrap)), F(f[2], P("int64"))),
			}
		}
		old.Defs = append(old.Defs, mk()...)
		nw.Defs = append(nw.Defs, mk()...)
		old.index()
		nw.index()
	}
	if top != "" {
		m := N(top)
		sent := func() Field { return F(nm.fresh(false), P("uint32")) }
		ctx := func() []*Def {
			return nil
		}
		_ = ctx
		names := []string{nm.fresh(true), nm.fresh(true), nm.fresh(true), nm.fresh(true), nm.fresh(true), nm.fresh(true), nm.fresh(true), nm.fresh(true), nm.fresh(true), nm.fresh(true)}
		fn := []string{nm.fresh(false), nm.fresh(false), nm.fresh(false), nm.fresh(false)}
		sn := []Field{sent(), sent(), sent(), sent(), sent(), sent()}
		// second level: the structs that hold the message in an array / as map values are
		// themselves nested (struct field, array element, message field), data following
		deep := []string{nm.fresh(true), nm.fresh(true), nm.fresh(true), nm.fresh(true), nm.fresh(true), nm.fresh(true)}
		dsn := []Field{sent(), sent(), sent(), sent(), sent(), sent()}
		mapOf := func(t Type) Type { return M("string", t) }
		if td := nw.Lookup(top); td != nil && td.Imported {
			// maps whose values are imported records do not compile in separate mode
			mapOf = func(t Type) Type { return A(A(t)) }
		}
		mkctx := func(inner func() *Def) []*Def {
			return []*Def{
				St(names[0], F(fn[0], m), sn[0]),
				St(names[1], F(fn[1], A(m)), sn[1]),
				St(names[2], F(fn[2], mapOf(m)), sn[2]),
				Msg(names[3], MF(1, fn[3], m), Field{Name: sn[3].Name, Type: sn[3].Type, Index: 2}),
				Un(names[4], Br(1, inner())),
				St(names[6], F(fn[0], N(names[4])), sn[4]),
				// the evolved message inside a struct that is itself nested and followed by data
				St(names[7], F(fn[1], m), F(fn[2], P("byte"))),
				St(names[8], F(fn[0], N(names[7])), sn[5]),
				St(names[9], F(fn[3], A(N(names[7]))), sn[5]),
				St(deep[0], F(fn[0], N(names[2])), dsn[0]),
				St(deep[1], F(fn[1], A(N(names[2]))), dsn[1]),
				Msg(deep[2], MF(1, fn[2], N(names[2])), Field{Name: dsn[2].Name, Type: dsn[2].Type, Index: 2}),
				St(deep[3], F(fn[0], N(names[1])), dsn[3]),
				St(deep[4], F(fn[1], mapOf(N(names[1]))), dsn[4]),
				Msg(deep[5], MF(1, fn[2], A(N(names[1]))), Field{Name: dsn[5].Name, Type: dsn[5].Type, Index: 2}),
			}
		}
		innerFields := func(s *Schema) func() *Def {
			return func() *Def {
				src := s.Lookup(top)
				d := cloneDef(src)
				d.Name = names[5]
				d.OpCode = 0
				return d
			}
		}
		old.Defs = append(old.Defs, mkctx(innerFields(old))...)
		nw.Defs = append(nw.Defs, mkctx(innerFields(nw))...)
		ev.Changed = append(ev.Changed, names[5])
	}
	// flag enums stay last (see Generate)
	for _, s := range []*Schema{old, nw} {
		var front, back []*Def
		for _, d := range s.Defs {
			if d.Kind == KEnum && d.Flags {
				back = append(back, d)
			} else {
				front = append(front, d)
			}
		}
		s.Defs = append(front, back...)
		s.index()
	}
	return ev
}

func lower(s string) string {
	b := []byte(s)
	for i, c := range b {
		if c >= 'A' && c <= 'Z' {
			b[i] = c + 32
		}
	}
	return string(b)
}
