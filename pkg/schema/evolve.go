package schema

import "verif/pkg/prng"

// Evolved is a pair of schema versions: New extends messages of Old with fields of fresh
// higher indices and/or still sends fields that Old has marked deprecated.
type Evolved struct {
	Old, New *Schema
	// Changed lists the messages that differ between the versions.
	Changed []string
}

// Evolve derives a version pair from s. The input is used as the basis of both versions.
// It returns nil when s has no message to evolve.
func Evolve(s *Schema, r *prng.Rand) *Evolved {
	old := s.Clone()
	nw := s.Clone()
	ev := &Evolved{Old: old, New: nw}
	nm := &namer{r: r.Fork("names"), used: map[string]bool{}}
	for _, d := range nw.Records() {
		nm.used[lower(d.Name)] = true
		for _, f := range d.Fields {
			nm.used[lower(f.Name)] = true
		}
	}
	var msgs []*Def
	for _, d := range nw.Records() {
		if d.Kind == KMessage {
			msgs = append(msgs, d)
		}
	}
	if len(msgs) == 0 {
		return nil
	}
	g := &gen{r: r, nm: nm, s: nw, cfg: GenConfig{MaxDefs: 1, MaxFields: 3, MaxDepth: 1}}
	for _, d := range nw.Defs {
		switch d.Kind {
		case KEnum:
			g.enums = append(g.enums, d.Name)
		case KStruct:
			g.structs = append(g.structs, d.Name)
		case KMessage:
			g.messages = append(g.messages, d.Name)
		case KUnion:
			g.unions = append(g.unions, d.Name)
		}
	}
	for _, m := range msgs {
		if !r.Chance(3, 4) && len(ev.Changed) > 0 {
			continue
		}
		om := old.Lookup(m.Name)
		changed := false
		// (a) the reader marks as deprecated a field the sender still transmits
		for i := range om.Fields {
			if !om.Fields[i].Deprecated && r.Chance(1, 4) {
				om.Fields[i].Deprecated = true
				changed = true
			}
			if om.Fields[i].Deprecated && m.Fields[i].Deprecated {
				// a field deprecated on both sides is never sent; make the sender send it
				m.Fields[i].Deprecated = false
				changed = true
			}
		}
		// (b) the sender adds fields with fresh, higher indices
		max := 0
		for _, f := range m.Fields {
			if int(f.Index) > max {
				max = int(f.Index)
			}
		}
		add := r.Range(1, 3)
		for k := 0; k < add && max < 255; k++ {
			step := 1
			if r.Chance(1, 3) {
				step = r.Range(1, 255-max)
			}
			max += step
			f := Field{Name: nm.fresh(false), Index: uint8(max), Type: g.fieldType(0, KMessage, m.Name)}
			m.Fields = append(m.Fields, f)
			changed = true
		}
		if changed {
			ev.Changed = append(ev.Changed, m.Name)
		}
	}
	old.index()
	nw.index()
	if len(ev.Changed) == 0 {
		return nil
	}
	// plant an evolved top-level message in every container context, each followed by a
	// sentinel field, identically in both versions
	var top string
	for _, n := range ev.Changed {
		for _, d := range nw.Defs {
			if d.Name == n && d.Kind == KMessage {
				top = n
			}
		}
	}
	if top != "" {
		m := N(top)
		sent := func() Field { return F(nm.fresh(false), P("uint32")) }
		ctx := func() []*Def {
			return nil
		}
		_ = ctx
		names := []string{nm.fresh(true), nm.fresh(true), nm.fresh(true), nm.fresh(true), nm.fresh(true), nm.fresh(true), nm.fresh(true), nm.fresh(true), nm.fresh(true), nm.fresh(true)}
		fn := []string{nm.fresh(false), nm.fresh(false), nm.fresh(false), nm.fresh(false)}
		sn := []Field{sent(), sent(), sent(), sent(), sent(), sent()}
		mkctx := func(inner func() *Def) []*Def {
			return []*Def{
				St(names[0], F(fn[0], m), sn[0]),
				St(names[1], F(fn[1], A(m)), sn[1]),
				St(names[2], F(fn[2], M("string", m)), sn[2]),
				Msg(names[3], MF(1, fn[3], m), Field{Name: sn[3].Name, Type: sn[3].Type, Index: 2}),
				Un(names[4], Br(1, inner())),
				St(names[6], F(fn[0], N(names[4])), sn[4]),
				// the evolved message inside a struct that is itself nested and followed by data
				St(names[7], F(fn[1], m), F(fn[2], P("byte"))),
				St(names[8], F(fn[0], N(names[7])), sn[5]),
				St(names[9], F(fn[3], A(N(names[7]))), sn[5]),
			}
		}
		innerFields := func(s *Schema) func() *Def {
			return func() *Def {
				src := s.Lookup(top)
				d := cloneDef(src)
				d.Name = names[5]
				d.OpCode = 0
				return d
			}
		}
		old.Defs = append(old.Defs, mkctx(innerFields(old))...)
		nw.Defs = append(nw.Defs, mkctx(innerFields(nw))...)
		ev.Changed = append(ev.Changed, names[5])
		old.index()
		nw.index()
	}
	return ev
}

func lower(s string) string {
	b := []byte(s)
	for i, c := range b {
		if c >= 'A' && c <= 'Z' {
			b[i] = c + 32
		}
	}
	return string(b)
}
