package schema

import "verif/pkg/prng"

// Evolved is a pair of schema versions: New extends messages of Old with fields of fresh
// higher indices and/or still sends fields that Old has marked deprecated.
type Evolved struct {
	Old, New *Schema
	// Changed lists the messages that differ between the versions.
	Changed []string
}

// Evolve derives a version pair from s. The input is used as the basis of both versions.
// It returns nil when s has no message to evolve.
func Evolve(s *Schema, r *prng.Rand) *Evolved {
	old := s.Clone()
	nw := s.Clone()
	ev := &Evolved{Old: old, New: nw}
	nm := &namer{r: r.Fork("names"), used: map[string]bool{}}
	for _, d := range nw.Records() {
		nm.used[lower(d.Name)] = true
		for _, f := range d.Fields {
			nm.used[lower(f.Name)] = true
		}
	}
	var msgs []*Def
	for _, d := range nw.Records() {
		if d.Kind == KMessage {
			msgs = append(msgs, d)
		}
	}
	if len(msgs) == 0 {
		return nil
	}
	g := &gen{r: r, nm: nm, s: nw, cfg: GenConfig{MaxDefs: 1, MaxFields: 3, MaxDepth: 1}}
	for _, d := range nw.Defs {
		switch d.Kind {
		case KEnum:
			g.enums = append(g.enums, d.Name)
		case KStruct:
			g.structs = append(g.structs, d.Name)
		case KMessage:
			g.messages = append(g.messages, d.Name)
		case KUnion:
			g.unions = append(g.unions, d.Name)
		}
	}
	for _, m := range msgs {
		if !r.Chance(3, 4) && len(ev.Changed) > 0 {
			continue
		}
		om := old.Lookup(m.Name)
		changed := false
		// (a) the reader marks as deprecated a field the sender still transmits
		for i := range om.Fields {
			if !om.Fields[i].Deprecated && r.Chance(1, 4) {
				om.Fields[i].Deprecated = true
				changed = true
			}
			if om.Fields[i].Deprecated && m.Fields[i].Deprecated {
				// a field deprecated on both sides is never sent; make the sender send it
				m.Fields[i].Deprecated = false
				changed = true
			}
		}
		// (b) the sender adds fields with fresh, higher indices
		max := 0
		for _, f := range m.Fields {
			if int(f.Index) > max {
				max = int(f.Index)
			}
		}
		add := r.Range(1, 3)
		for k := 0; k < add && max < 255; k++ {
			step := 1
			if r.Chance(1, 3) {
				step = r.Range(1, 255-max)
			}
			max += step
			f := Field{Name: nm.fresh(false), Index: uint8(max), Type: g.fieldType(0, KMessage, m.Name)}
			m.Fields = append(m.Fields, f)
			changed = true
		}
		if changed {
			ev.Changed = append(ev.Changed, m.Name)
		}
	}
	old.index()
	nw.index()
	if len(ev.Changed) == 0 {
		return nil
	}
	return ev
}

func lower(s string) string {
	b := []byte(s)
	for i, c := range b {
		if c >= 'A' && c <= 'Z' {
			b[i] = c + 32
		}
	}
	return string(b)
}
