package schema

import (
	"fmt"
	"strings"

	"verif/pkg/prng"
)

// GenConfig is drawn per program (swarm style) by Generate itself unless fixed here.
type GenConfig struct {
	MaxDefs   int
	MaxFields int
	MaxDepth  int // container nesting
}

var onsets = []string{"b", "d", "f", "g", "h", "j", "k", "l", "m", "n", "p", "q", "s", "t", "v", "w", "x", "z"}
var vowels = []string{"a", "e", "o", "u", "y"}

type namer struct {
	r    *prng.Rand
	used map[string]bool
}

func (n *namer) syll() string {
	return onsets[n.r.Intn(len(onsets))] + vowels[n.r.Intn(len(vowels))] + onsets[n.r.Intn(len(onsets))]
}

// reserved lower-cased stems that generated Go code uses itself.
var reserved = map[string]bool{"get": true, "new": true, "tmp": true, "buf": true, "bbp": true, "len": true,
	"map": true, "var": true, "for": true, "nan": true, "mak": true, "mus": true, "nil": true, "def": true}

func (n *namer) fresh(upper bool) string {
	for {
		s := n.syll()
		if n.r.Chance(1, 3) {
			s += n.syll()
		}
		if n.r.Chance(1, 4) {
			s += fmt.Sprint(n.r.Intn(10))
		}
		if reserved[s[:3]] || n.used[s] {
			continue
		}
		n.used[s] = true
		if upper {
			return string(s[0]-32) + s[1:]
		}
		return s
	}
}

type gen struct {
	r     *prng.Rand
	nm    *namer
	cfg   GenConfig
	s     *Schema
	enums []string
	// records usable as field types, by kind
	structs, messages, unions []string
}

// Generate draws one schema from r.
func Generate(r *prng.Rand, name string) *Schema {
	g := &gen{r: r, nm: &namer{r: r.Fork("names"), used: map[string]bool{}}, s: &Schema{Name: name}}
	g.cfg = GenConfig{MaxDefs: r.Range(1, 6), MaxFields: r.Range(1, 6), MaxDepth: r.Range(0, 3)}
	nd := r.Range(1, g.cfg.MaxDefs)
	if r.Chance(1, 12) {
		// a LARGE program: dozens of definitions (thresholds on the number of definitions,
		// name tables, per-file counters)
		nd = r.Range(33, 70)
		g.cfg.MaxFields = 3
	}
	for i := 0; i < nd; i++ {
		g.def(i == nd-1)
	}
	ro := r.Fork("order")
	if ro.Chance(1, 5) {
		g.wrappers(ro, 0)
	}
	// a [flags] attribute sticks to every later definition in this parser, so flag enums
	// go last (the schema stays one the compiler accepts)
	var front, back []*Def
	for _, d := range g.s.Defs {
		if d.Kind == KEnum && d.Flags {
			back = append(back, d)
		} else {
			front = append(front, d)
		}
	}
	if ro.Chance(1, 3) {
		// FORWARD references: the generator above only ever refers to earlier definitions;
		// the language does not care, so one program in three is declared in another order
		// (reversed = strictly top-down, or shuffled)
		if ro.Bool() {
			for i, j := 0, len(front)-1; i < j; i, j = i+1, j-1 {
				front[i], front[j] = front[j], front[i]
			}
		} else {
			pm := ro.Perm(len(front))
			sh := make([]*Def, len(front))
			for i, k := range pm {
				sh[i] = front[k]
			}
			front = sh
		}
	}
	g.s.Defs = append(front, back...)
	g.consts(len(front))
	g.s.index()
	return g.s
}

var wrapperLeaves = []string{"int32", "byte", "float64", "guid", "uint16", "date", "bool"}

// wrappers adds a chain of structs that hold NOTHING BUT other structs (1..4 levels above
// a leaf struct of fixed scalars) and a record that uses every level as array element and
// map value with data following. nImported of the lowest levels go to the library file.
func (g *gen) wrappers(r *prng.Rand, nImported int) {
	leaf := &Def{Kind: KStruct, Name: g.nm.fresh(true)}
	for i, n := 0, r.Range(1, 2); i < n; i++ {
		leaf.Fields = append(leaf.Fields, Field{Name: g.nm.fresh(false), Type: Type{Prim: wrapperLeaves[r.Intn(len(wrapperLeaves))]}})
	}
	chain := []*Def{leaf}
	for lvl, depth := 0, r.Range(1, 4); lvl < depth; lvl++ {
		w := &Def{Kind: KStruct, Name: g.nm.fresh(true)}
		for i, n := 0, r.Range(1, 2); i < n; i++ {
			inner := chain[len(chain)-1]
			if i > 0 && r.Bool() {
				inner = chain[r.Intn(len(chain))]
			}
			w.Fields = append(w.Fields, Field{Name: g.nm.fresh(false), Type: Type{Named: inner.Name}})
		}
		chain = append(chain, w)
	}
	for i := 0; i < nImported && i < len(chain)-1; i++ {
		chain[i].Imported = true
	}
	var holder *Def
	arr := func(d *Def) Type { t := Type{Named: d.Name}; return Type{Array: &t, Postfix: r.Bool()} }
	top := chain[len(chain)-1]
	if r.Bool() {
		holder = &Def{Kind: KStruct, Name: g.nm.fresh(true)}
		holder.Fields = append(holder.Fields, Field{Name: g.nm.fresh(false), Type: arr(top)})
		if len(chain) > 2 && r.Bool() {
			holder.Fields = append(holder.Fields, Field{Name: g.nm.fresh(false), Type: arr(chain[r.Range(1, len(chain)-2)])})
		}
		if r.Bool() {
			v := Type{Named: top.Name}
			holder.Fields = append(holder.Fields, Field{Name: g.nm.fresh(false), Type: Type{MapK: "string", MapV: &v}})
		}
		holder.Fields = append(holder.Fields, Field{Name: g.nm.fresh(false), Type: Type{Prim: "uint32"}})
	} else {
		holder = &Def{Kind: KMessage, Name: g.nm.fresh(true)}
		holder.Fields = append(holder.Fields, Field{Name: g.nm.fresh(false), Index: 1, Type: arr(top)})
		if len(chain) > 2 {
			holder.Fields = append(holder.Fields, Field{Name: g.nm.fresh(false), Index: 2, Type: arr(chain[r.Range(1, len(chain)-2)])})
		}
		holder.Fields = append(holder.Fields, Field{Name: g.nm.fresh(false), Index: 7, Type: Type{Prim: "uint32"}})
	}
	// imported levels first (they belong to the library file anyway), the rest in a drawn
	// order: bottom-up, top-down, or holder in the middle
	var own []*Def
	for _, d := range chain {
		if d.Imported {
			g.s.Defs = append(g.s.Defs, d)
		} else {
			own = append(own, d)
		}
	}
	own = append(own, holder)
	switch r.Intn(3) {
	case 1:
		for i, j := 0, len(own)-1; i < j; i, j = i+1, j-1 {
			own[i], own[j] = own[j], own[i]
		}
	case 2:
		pm := r.Perm(len(own))
		sh := make([]*Def, len(own))
		for i, k := range pm {
			sh[i] = own[k]
		}
		own = sh
	}
	g.s.Defs = append(g.s.Defs, own...)
	for _, d := range chain {
		g.structs = append(g.structs, d.Name)
	}
}

var constLiterals = [][2]string{{"int32", "-5"}, {"uint8", "0xff"}, {"int64", "-9223372036854775808"}, {"uint64", "18446744073709551615"},
	{"float64", "1.5"}, {"float32", "-inf"}, {"float64", "nan"}, {"float64", "inf"}, {"bool", "true"}, {"bool", "false"},
	{"string", "\"plain\""}, {"string", "\"with \\\"escapes\\\" and \\\\ slashes\""}, {"string", "\"two\nlines\""}, {"string", "\"\""},
	{"guid", "\"e215a946-b26f-4567-a276-13136f0a1708\""}, {"uint16", "65535"}, {"int16", "-32768"}}

// consts sprinkles constant definitions between the non-flag definitions.
func (g *gen) consts(slots int) {
	n := g.r.Intn(4)
	for i := 0; i < n; i++ {
		c := constLiterals[g.r.Intn(len(constLiterals))]
		g.s.Consts = append(g.s.Consts, Const{Type: c[0], Name: "k" + g.nm.fresh(true), Literal: c[1], After: g.r.Intn(slots + 1)})
	}
}

// oddTags are comments shaped like tags that the parser accepts as tags or as plain
// comments, but that make poor Go struct tags (empty, spaces, quotes or backquotes inside).
var oddTags = []string{"[tag()]", "[tag(not a key)]", "[tag(a\"b)]", "[tag(db:unquoted)]", "[tag(json:\"with `backquote`\")]", "[tag(x:\"\")]", "[tag(k:\"v\") ]", "[tag(dup)]", "[tag(dup)]"}

// tagLines draws one to three tag comments for one field (one per comment line).
func (g *gen) tagLines() string {
	n := 1
	if g.r.Chance(1, 3) {
		n = g.r.Range(2, 3)
	}
	var out []string
	for i := 0; i < n; i++ {
		if g.r.Chance(1, 4) {
			out = append(out, oddTags[g.r.Intn(len(oddTags))])
		} else {
			out = append(out, tagComments[g.r.Intn(len(tagComments))])
		}
	}
	return strings.Join(out, "\n")
}

var tagComments = []string{"[tag(json:\"f,omitempty\")]", "[tag(db:\"col\")]", "[tag(flagged)]", "[tag(json:\"more colons::\")]"}

var commentTexts = []string{" doc", " two\n lines", " stars * and / slashes", " unicode \u00e9\u4e16", " x", " trailing star *", " [not a tag]", " looks like code: struct X { }"}

func (g *gen) comment() string {
	if !g.r.Chance(1, 3) {
		return ""
	}
	c := commentTexts[g.r.Intn(len(commentTexts))]
	if g.r.Chance(1, 10) {
		// long comments push what follows across the tokenizer's buffer sizes
		n := []int{500, 2040, 4080, 4090, 4100, 8190}[g.r.Intn(6)]
		b := make([]byte, n)
		for i := range b {
			b[i] = "abcdefgh *"[i%10]
		}
		c += " " + string(b)
	}
	return c
}

func (g *gen) def(last bool) {
	w := []int{4, 4, 2, 2} // struct, message, union, enum
	if last {
		w[3] = 0 // end with a record so the program always has something to send
	}
	switch g.r.Pick(w) {
	case 0:
		d := g.structDef(g.nm.fresh(true), true)
		d.Comment = g.comment()
		g.s.Defs = append(g.s.Defs, d)
		g.structs = append(g.structs, d.Name)
	case 1:
		d := g.messageDef(g.nm.fresh(true), true)
		d.Comment = g.comment()
		g.s.Defs = append(g.s.Defs, d)
		g.messages = append(g.messages, d.Name)
	case 2:
		d := g.unionDef()
		g.s.Defs = append(g.s.Defs, d)
		g.unions = append(g.unions, d.Name)
	case 3:
		d := g.enumDef()
		g.s.Defs = append(g.s.Defs, d)
		g.enums = append(g.enums, d.Name)
	}
}

func (g *gen) enumDef() *Def {
	d := &Def{Kind: KEnum, Name: g.nm.fresh(true)}
	if g.r.Chance(3, 4) {
		d.Base = EnumBases[g.r.Intn(len(EnumBases))]
	}
	d.Flags = g.r.Chance(1, 6)
	bits := PrimSize(d.BaseType()) * 8
	n := g.r.Range(0, 4)
	seenU := map[uint64]bool{}
	for i := 0; i < n; i++ {
		o := EnumOpt{Name: g.nm.fresh(true)}
		if d.Unsigned() {
			switch g.r.Intn(4) {
			case 0:
				o.UValue = uint64(i)
			case 1:
				o.UValue = (uint64(1) << uint(bits-1)) | uint64(i) // top bit set
			case 2:
				if bits == 64 {
					o.UValue = ^uint64(0) - uint64(i)
				} else {
					o.UValue = (uint64(1) << uint(bits)) - 1 - uint64(i)
				}
			default:
				o.UValue = g.r.Uint64() & ((uint64(1) << uint(bits-1)) - 1)
			}
			if seenU[o.UValue] {
				continue
			}
			seenU[o.UValue] = true
		} else {
			switch g.r.Intn(4) {
			case 0:
				o.Value = int64(i)
			case 1:
				o.Value = -(int64(1) << uint(bits-1)) + int64(i) // minimum
			case 2:
				o.Value = (int64(1) << uint(bits-1)) - 1 - int64(i) // maximum
			default:
				o.Value = -int64(g.r.Uint64() & ((uint64(1) << uint(bits-2)) - 1))
			}
			if seenU[uint64(o.Value)] {
				continue
			}
			seenU[uint64(o.Value)] = true
		}
		d.Opts = append(d.Opts, o)
	}
	return d
}

func (g *gen) structDef(name string, top bool) *Def {
	d := &Def{Kind: KStruct, Name: name}
	d.ReadOnly = top && g.r.Chance(1, 5) // the grammar has no readonly union branches
	if top && g.r.Chance(1, 8) {
		d.OpCode = uint32(g.r.Uint64()) | 1
	}
	n := g.r.Range(0, g.cfg.MaxFields)
	if g.r.Chance(9, 10) && n == 0 {
		n = 1
	}
	if g.r.Chance(1, 8) {
		// a wide record of fixed-size fields: sizes beyond 255 bytes, field counts beyond 16
		n = g.r.Range(18, 40)
		fixed := []string{"guid", "float64", "int64", "uint64", "date", "uint32", "guid", "guid"}
		for i := 0; i < n; i++ {
			d.Fields = append(d.Fields, Field{Name: g.nm.fresh(false), Type: Type{Prim: fixed[g.r.Intn(len(fixed))]}})
		}
		return d
	}
	for i := 0; i < n; i++ {
		f := Field{Name: g.nm.fresh(false), Type: g.fieldType(0, KStruct, name)}
		f.Deprecated = g.r.Chance(1, 10)
		if g.r.Chance(1, 6) {
			f.Comment = g.tagLines()
		}
		d.Fields = append(d.Fields, f)
	}
	return d
}

func (g *gen) messageDef(name string, top bool) *Def {
	d := &Def{Kind: KMessage, Name: name}
	if top && g.r.Chance(1, 8) {
		d.OpCode = uint32(g.r.Uint64()) | 1
	}
	n := g.r.Range(0, g.cfg.MaxFields)
	used := map[uint8]bool{}
	for i := 0; i < n; i++ {
		var idx uint8
		switch g.r.Intn(5) {
		case 0:
			idx = 255 - uint8(i)
		case 1:
			idx = uint8(g.r.Range(1, 255))
		default:
			idx = uint8(i + 1)
		}
		if i == 0 && g.r.Chance(1, 400) {
			// index 0 is the terminator byte on the wire; whether the compiler accepts such a
			// message is its business, and what it accepts has to work
			idx = 0
		} else if idx == 0 {
			continue
		}
		if used[idx] {
			continue
		}
		used[idx] = true
		f := Field{Name: g.nm.fresh(false), Index: idx, Type: g.fieldType(0, KMessage, name)}
		f.Deprecated = g.r.Chance(1, 6)
		if g.r.Chance(1, 6) {
			f.Comment = commentTexts[g.r.Intn(len(commentTexts))]
		}
		if g.r.Chance(1, 6) {
			f.Comment = g.tagLines()
		}
		d.Fields = append(d.Fields, f)
	}
	SortFields(d.Fields)
	return d
}

func (g *gen) unionDef() *Def {
	d := &Def{Kind: KUnion, Name: g.nm.fresh(true)}
	if g.r.Chance(1, 8) {
		d.OpCode = uint32(g.r.Uint64()) | 1
	}
	n := g.r.Range(1, 4)
	used := map[uint8]bool{}
	// make the union visible to its own branches (List-style recursion)
	g.unions = append(g.unions, d.Name)
	for i := 0; i < n; i++ {
		disc := uint8(i + 1)
		if g.r.Chance(1, 5) {
			disc = uint8(g.r.Range(1, 255))
		}
		if used[disc] {
			continue
		}
		used[disc] = true
		var bd *Def
		if g.r.Bool() {
			bd = g.structDef(g.nm.fresh(true), false)
		} else {
			bd = g.messageDef(g.nm.fresh(true), false)
		}
		d.Branches = append(d.Branches, Branch{Disc: disc, Def: bd, Deprecated: g.r.Chance(1, 6)})
	}
	g.unions = g.unions[:len(g.unions)-1]
	// sort by discriminator
	for i := 1; i < len(d.Branches); i++ {
		for j := i; j > 0 && d.Branches[j].Disc < d.Branches[j-1].Disc; j-- {
			d.Branches[j], d.Branches[j-1] = d.Branches[j-1], d.Branches[j]
		}
	}
	return d
}

// fieldType draws a type. Struct fields must not lead back to the enclosing struct
// through structs only; we keep it simple and sound: a struct may reference only
// earlier structs, any enum, and any message or union (which may recurse).
func (g *gen) fieldType(depth int, owner Kind, ownerName string) Type {
	w := []int{10, 0, 3, 2}
	named := g.namedCandidates(owner, ownerName)
	if len(named) > 0 {
		w[1] = 6
	}
	if depth >= g.cfg.MaxDepth {
		w[2], w[3] = 0, 0
	}
	switch g.r.Pick(w) {
	case 1:
		return Type{Named: named[g.r.Intn(len(named))]}
	case 2:
		e := g.fieldType(depth+1, owner, ownerName)
		return Type{Array: &e, Postfix: g.r.Bool()}
	case 3:
		v := g.fieldType(depth+1, owner, ownerName)
		keys := []string{"bool", "byte", "uint8", "uint16", "int16", "uint32", "int32", "uint64", "int64",
			"float32", "float64", "string", "guid", "date"}
		return Type{MapK: keys[g.r.Intn(len(keys))], MapV: &v}
	}
	return Type{Prim: Primitives[g.r.Intn(len(Primitives))]}
}

func (g *gen) namedCandidates(owner Kind, ownerName string) []string {
	var out []string
	out = append(out, g.enums...)
	out = append(out, g.structs...)
	out = append(out, g.messages...)
	out = append(out, g.unions...)
	if owner == KMessage && g.r.Chance(1, 4) {
		out = append(out, ownerName) // direct recursion through a message
	}
	return out
}

// GenerateWithLib draws a program that imports a small library file: the library holds
// enums with explicit base types, a struct, a message and a union; the program's own
// records use them in every container position.
func GenerateWithLib(r *prng.Rand, name string) *Schema {
	g := &gen{r: r, nm: &namer{r: r.Fork("names"), used: map[string]bool{}}, s: &Schema{Name: name}}
	g.cfg = GenConfig{MaxDefs: 4, MaxFields: r.Range(2, 5), MaxDepth: r.Range(1, 2)}
	nl := r.Range(2, 4)
	for i := 0; i < nl; i++ {
		g.def(false)
	}
	for _, d := range g.s.Defs {
		d.Imported = true
		d.Flags = false
	}
	nd := r.Range(1, 3)
	for i := 0; i < nd; i++ {
		g.def(i == nd-1)
	}
	g.s.Combined = r.Bool()
	if ro := r.Fork("order"); ro.Chance(1, 4) {
		// a wrapper chain whose lower levels live in the library file
		g.wrappers(ro, ro.Range(1, 3))
	}
	var front, back []*Def
	for _, d := range g.s.Defs {
		if d.Kind == KEnum && d.Flags {
			back = append(back, d)
		} else {
			front = append(front, d)
		}
	}
	g.s.Defs = append(front, back...)
	g.s.index()
	return g.s
}
