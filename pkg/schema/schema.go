// Package schema is the simulator's own model of a Bebop schema: an AST, a printer to
// .bop text, a seeded generator and an evolver. It shares no code with 200sc/bebop; the
// real compiler only ever sees the printed text.
package schema

import (
	"fmt"
	"sort"
	"strings"
)

type Kind int

const (
	KStruct Kind = iota
	KMessage
	KUnion
	KEnum
)

func (k Kind) String() string { return [...]string{"struct", "message", "union", "enum"}[k] }

var Primitives = []string{"bool", "byte", "uint8", "uint16", "int16", "uint32", "int32", "uint64", "int64",
	"float32", "float64", "string", "guid", "date"}

var primSize = map[string]int{"bool": 1, "byte": 1, "uint8": 1, "uint16": 2, "int16": 2, "uint32": 4, "int32": 4,
	"uint64": 8, "int64": 8, "float32": 4, "float64": 8, "guid": 16, "date": 8}

var EnumBases = []string{"byte", "uint8", "uint16", "int16", "uint32", "int32", "uint64", "int64"}

func IsPrim(s string) bool {
	if s == "string" {
		return true
	}
	_, ok := primSize[s]
	return ok
}

// PrimSize is the fixed wire size of a primitive (0 for string).
func PrimSize(s string) int { return primSize[s] }

// Type is a field type: exactly one of Prim, Named, Array, MapV(+MapK) is set.
type Type struct {
	Prim  string `json:"prim,omitempty"`
	Named string `json:"named,omitempty"`
	Array *Type  `json:"array,omitempty"`
	MapK  string `json:"mapk,omitempty"`
	MapV  *Type  `json:"mapv,omitempty"`
	// Postfix selects the "T[]" spelling instead of "array[T]" when printing.
	Postfix bool `json:"postfix,omitempty"`
}

func (t Type) String() string {
	switch {
	case t.Array != nil:
		if t.Postfix {
			return t.Array.String() + "[]"
		}
		return "array[" + t.Array.String() + "]"
	case t.MapV != nil:
		return "map[" + t.MapK + ", " + t.MapV.String() + "]"
	case t.Named != "":
		return t.Named
	}
	return t.Prim
}

type Field struct {
	Name       string `json:"name"`
	Type       Type   `json:"type"`
	Index      uint8  `json:"index,omitempty"` // messages only
	Deprecated bool   `json:"deprecated,omitempty"`
	Comment    string `json:"comment,omitempty"`
}

type EnumOpt struct {
	Name   string `json:"name"`
	Value  int64  `json:"value"`  // signed bases
	UValue uint64 `json:"uvalue"` // unsigned bases
}

type Branch struct {
	Disc       uint8 `json:"disc"`
	Def        *Def  `json:"def"` // struct or message, defined inline
	Deprecated bool  `json:"deprecated,omitempty"`
}

type Def struct {
	Kind     Kind      `json:"kind"`
	Name     string    `json:"name"`
	ReadOnly bool      `json:"readonly,omitempty"`
	OpCode   uint32    `json:"opcode,omitempty"`
	Base     string    `json:"base,omitempty"` // enums
	Flags    bool      `json:"flags,omitempty"`
	Opts     []EnumOpt `json:"opts,omitempty"`
	Fields   []Field   `json:"fields,omitempty"`   // struct: in order; message: sorted by index
	Branches []Branch  `json:"branches,omitempty"` // union: sorted by discriminator
	Comment  string    `json:"comment,omitempty"`
	// Imported definitions live in a separate .bop file that the program imports.
	Imported bool `json:"imported,omitempty"`
}

func (d *Def) Unsigned() bool { return d.Base == "" || d.Base[0] == 'u' || d.Base == "byte" }

func (d *Def) BaseType() string {
	if d.Base == "" {
		return "uint32"
	}
	return d.Base
}

// Const is a constant definition; Literal is the source text of its value.
type Const struct {
	Type    string `json:"type"`
	Name    string `json:"name"`
	Literal string `json:"literal"`
	After   int    `json:"after"` // printed after this many definitions (0 = first)
}

type Schema struct {
	Name   string  `json:"name"`
	Defs   []*Def  `json:"defs"`
	Consts []Const `json:"consts,omitempty"`
	// Combined selects the generator's combined import mode for programs that import a
	// library file (separate mode otherwise).
	Combined bool `json:"combined,omitempty"`
	// DeclSeed != 0: message fields are declared in an order permuted by this seed in every
	// printed form of the program (see Layout.FieldOrder).
	DeclSeed uint64 `json:"decl_seed,omitempty"`
	byName   map[string]*Def
}

// HasLib reports whether some definitions are imported from a library file.
func (s *Schema) HasLib() bool {
	for _, d := range s.Defs {
		if d.Imported {
			return true
		}
	}
	return false
}

// PrintApp prints the importing file: an import line and the program's own definitions.
func (s *Schema) PrintApp(libFile string) string {
	own := &Schema{Name: s.Name, DeclSeed: s.DeclSeed}
	for _, d := range s.Defs {
		if !d.Imported {
			own.Defs = append(own.Defs, d)
		}
	}
	return "import \"" + libFile + "\"\n" + own.PrintLayout(Layout{Indent: "    ", Comments: true})
}

// PrintLib prints the imported file with its go_package constant.
func (s *Schema) PrintLib(goPackage string) string {
	lib := &Schema{Name: s.Name + "lib", DeclSeed: s.DeclSeed}
	for _, d := range s.Defs {
		if d.Imported {
			lib.Defs = append(lib.Defs, d)
		}
	}
	return "const string go_package = \"" + goPackage + "\";\n" + lib.PrintLayout(Layout{Indent: "    ", Comments: true})
}

func (s *Schema) index() {
	s.byName = map[string]*Def{}
	for _, d := range s.Defs {
		s.byName[d.Name] = d
		if d.Kind == KUnion {
			for _, b := range d.Branches {
				s.byName[b.Def.Name] = b.Def
			}
		}
	}
}

// Lookup finds a definition (top level or union branch) by name.
func (s *Schema) Lookup(name string) *Def {
	if s.byName == nil {
		s.index()
	}
	return s.byName[name]
}

// Reindex must be called after Defs are modified.
func (s *Schema) Reindex() { s.index() }

// Records lists every record definition, top-level ones first then union branches, in
// definition order.
func (s *Schema) Records() []*Def {
	var out []*Def
	for _, d := range s.Defs {
		if d.Kind != KEnum {
			out = append(out, d)
		}
	}
	for _, d := range s.Defs {
		if d.Kind == KUnion {
			for _, b := range d.Branches {
				out = append(out, b.Def)
			}
		}
	}
	return out
}

// SortedFields returns message fields by index.
func SortFields(fs []Field) {
	sort.SliceStable(fs, func(i, j int) bool { return fs[i].Index < fs[j].Index })
}

// ---------------------------------------------------------------------------------
// printer

type Layout struct {
	Indent    string
	CRLF      bool
	OneLine   bool // records on one line where the grammar allows
	Comments  bool
	Block     bool // doc comments as /* block */ comments instead of // lines
	BlankRuns int
	Trailing  int  // 1: "// c" after closing curlies and const semicolons; 2: "/* c */" there
	SameLine  bool // some definitions follow the previous one on the same line
	// FieldOrder != 0: message fields (and union branches) are DECLARED in an order permuted
	// by this seed instead of by ascending index; the meaning of the schema is the same.
	FieldOrder uint64
}

// declOrder returns the order in which n members of the named definition are printed.
func declOrder(l Layout, name string, n int) []int {
	out := make([]int, n)
	for i := range out {
		out[i] = i
	}
	if l.FieldOrder == 0 || n < 2 {
		return out
	}
	x := l.FieldOrder
	for _, c := range []byte(name) {
		x = (x ^ uint64(c)) * 0x100000001b3
	}
	for i := n - 1; i > 0; i-- {
		x ^= x << 13
		x ^= x >> 7
		x ^= x << 17
		j := int(x % uint64(i+1))
		out[i], out[j] = out[j], out[i]
	}
	return out
}

// flagExpr writes v as a [flags] expression in one of several forms with the same value.
func flagExpr(v uint64, form int) string {
	if v != 0 && v&(v-1) == 0 && form%2 == 0 {
		k := 0
		for x := v; x > 1; x >>= 1 {
			k++
		}
		return fmt.Sprintf("1 << %d", k)
	}
	switch form % 4 {
	case 1:
		return fmt.Sprintf("0x%x", v)
	case 2:
		lo := v & 0xff
		return fmt.Sprintf("(%d | 0x%x)", v&^lo, lo)
	case 3:
		return fmt.Sprintf("(0x%x & 0x%x) | %d", v, ^uint64(0)>>1|v, 0)
	}
	return fmt.Sprintf("%d", v)
}

func writeComment(b *strings.Builder, c string, l Layout, ind string) {
	if c == "" || !l.Comments {
		return
	}
	if l.Block {
		fmt.Fprintf(b, "%s/*%s*/\n", ind, c)
		return
	}
	for _, ln := range strings.Split(c, "\n") {
		fmt.Fprintf(b, "%s//%s\n", ind, ln)
	}
}

func (s *Schema) Print() string { return s.PrintLayout(Layout{Indent: "    ", Comments: true}) }

func (s *Schema) PrintLayout(l Layout) string {
	var b strings.Builder
	if l.FieldOrder == 0 {
		l.FieldOrder = s.DeclSeed
	}
	trail := func() {
		switch l.Trailing {
		case 1:
			b.WriteString(" // trailing remark")
		case 2:
			b.WriteString(" /* trailing remark */")
		}
	}
	consts := func(after int) {
		for _, c := range s.Consts {
			if c.After != after {
				continue
			}
			fmt.Fprintf(&b, "const %s %s = %s;", c.Type, c.Name, c.Literal)
			trail()
			b.WriteString("\n")
		}
	}
	consts(0)
	for i, d := range s.Defs {
		if i > 0 && !(l.SameLine && i%3 == 2 && d.OpCode == 0 && !(d.Kind == KEnum && d.Flags) && d.Comment == "") {
			b.WriteString("\n")
		}
		var one strings.Builder
		printDef(&one, d, l, "")
		txt := strings.TrimRight(one.String(), "\n")
		b.WriteString(txt)
		trail()
		if l.SameLine && i%3 == 1 && i+1 < len(s.Defs) {
			b.WriteString(" ")
		} else {
			b.WriteString("\n")
		}
		consts(i + 1)
	}
	out := b.String()
	if l.CRLF {
		out = strings.ReplaceAll(out, "\n", "\r\n")
	}
	return out
}

func printDef(b *strings.Builder, d *Def, l Layout, ind string) {
	writeComment(b, d.Comment, l, ind)
	if d.OpCode != 0 {
		fmt.Fprintf(b, "%s[opcode(0x%x)]\n", ind, d.OpCode)
	}
	if d.Kind == KEnum && d.Flags {
		fmt.Fprintf(b, "%s[flags]\n", ind)
	}
	b.WriteString(ind)
	printDefBody(b, d, l, ind)
	b.WriteString("\n")
}

func printDefBody(b *strings.Builder, d *Def, l Layout, ind string) {
	in2 := ind + l.Indent
	nl := "\n"
	if l.OneLine && d.Kind != KUnion {
		nl, in2 = " ", ""
	}
	switch d.Kind {
	case KEnum:
		fmt.Fprintf(b, "enum %s", d.Name)
		if d.Base != "" {
			fmt.Fprintf(b, " : %s", d.Base)
		}
		b.WriteString(" {" + nl)
		for i, o := range d.Opts {
			if d.Flags && d.Unsigned() {
				fmt.Fprintf(b, "%s%s = %s;%s", in2, o.Name, flagExpr(o.UValue, i), nl)
				continue
			}
			if d.Unsigned() {
				fmt.Fprintf(b, "%s%s = %d;%s", in2, o.Name, o.UValue, nl)
			} else {
				fmt.Fprintf(b, "%s%s = %d;%s", in2, o.Name, o.Value, nl)
			}
		}
		if nl == " " {
			b.WriteString("}")
		} else {
			b.WriteString(ind + "}")
		}
	case KStruct:
		if d.ReadOnly {
			b.WriteString("readonly ")
		}
		fmt.Fprintf(b, "struct %s {%s", d.Name, nl)
		for _, f := range d.Fields {
			if nl == "\n" {
				writeComment(b, f.Comment, l, in2)
			}
			if f.Deprecated {
				fmt.Fprintf(b, "%s[deprecated(\"old\")]%s", in2, nl)
			}
			fmt.Fprintf(b, "%s%s %s;%s", in2, f.Type.String(), f.Name, nl)
		}
		if nl == " " {
			b.WriteString("}")
		} else {
			b.WriteString(ind + "}")
		}
	case KMessage:
		fmt.Fprintf(b, "message %s {%s", d.Name, nl)
		for _, fi := range declOrder(l, d.Name, len(d.Fields)) {
			f := d.Fields[fi]
			if nl == "\n" {
				writeComment(b, f.Comment, l, in2)
			}
			if f.Deprecated {
				fmt.Fprintf(b, "%s[deprecated(\"old\")]%s", in2, nl)
			}
			fmt.Fprintf(b, "%s%d -> %s %s;%s", in2, f.Index, f.Type.String(), f.Name, nl)
		}
		if nl == " " {
			b.WriteString("}")
		} else {
			b.WriteString(ind + "}")
		}
	case KUnion:
		fmt.Fprintf(b, "union %s {\n", d.Name)
		for _, br := range d.Branches {
			writeComment(b, br.Def.Comment, l, in2)
			if br.Deprecated {
				fmt.Fprintf(b, "%s[deprecated(\"old branch\")]\n", in2)
			}
			fmt.Fprintf(b, "%s%d -> ", in2, br.Disc)
			printDefBody(b, br.Def, l, in2)
			b.WriteString("\n")
		}
		b.WriteString(ind + "}")
	}
}

// ---------------------------------------------------------------------------------
// static facts used by budgets and generators

// MinWire is the smallest number of bytes an encoding of t can occupy.
func (s *Schema) MinWire(t Type) int { return s.minWire(t, map[string]bool{}) }

func (s *Schema) minWire(t Type, seen map[string]bool) int {
	switch {
	case t.Array != nil || t.MapV != nil:
		return 4
	case t.Prim == "string":
		return 4
	case t.Prim != "":
		return primSize[t.Prim]
	}
	d := s.Lookup(t.Named)
	if d == nil {
		return 0
	}
	switch d.Kind {
	case KEnum:
		return primSize[d.BaseType()]
	case KMessage:
		return 5
	case KUnion:
		return 5
	}
	if seen[d.Name] {
		return 0
	}
	seen[d.Name] = true
	defer delete(seen, d.Name)
	n := 0
	for _, f := range d.Fields {
		n += s.minWire(f.Type, seen)
	}
	return n
}

// FixedWire is the wire size of t when every value of t occupies the same number of bytes
// (scalars, enums, structs of such), 0 otherwise.
func (s *Schema) FixedWire(t Type) int { return s.fixedWire(t, map[string]bool{}) }

func (s *Schema) fixedWire(t Type, seen map[string]bool) int {
	switch {
	case t.Array != nil || t.MapV != nil || t.Prim == "string":
		return 0
	case t.Prim != "":
		return primSize[t.Prim]
	}
	d := s.Lookup(t.Named)
	if d == nil {
		return 0
	}
	if d.Kind == KEnum {
		return primSize[d.BaseType()]
	}
	if d.Kind != KStruct || seen[d.Name] {
		return 0
	}
	seen[d.Name] = true
	defer delete(seen, d.Name)
	n := 0
	for _, f := range d.Fields {
		k := s.fixedWire(f.Type, seen)
		if k == 0 {
			return 0
		}
		n += k
	}
	return n
}

// Shape returns a compact structural description of t (names erased), used to count
// distinct type shapes explored.
func (s *Schema) Shape(t Type) string { return s.shape(t, 0) }

func (s *Schema) shape(t Type, depth int) string {
	switch {
	case t.Array != nil:
		return "[" + s.shape(*t.Array, depth) + "]"
	case t.MapV != nil:
		return "{" + t.MapK + ":" + s.shape(*t.MapV, depth) + "}"
	case t.Prim != "":
		return t.Prim
	}
	d := s.Lookup(t.Named)
	if d == nil {
		return "?"
	}
	if d.Kind == KEnum {
		return "enum:" + d.BaseType()
	}
	if depth >= 2 {
		return d.Kind.String()
	}
	return s.DefShape(d, depth+1)
}

func (s *Schema) DefShape(d *Def, depth int) string {
	var parts []string
	switch d.Kind {
	case KStruct:
		for _, f := range d.Fields {
			parts = append(parts, s.shape(f.Type, depth))
		}
		ro := ""
		if d.ReadOnly {
			ro = "ro "
		}
		return ro + "S(" + strings.Join(parts, ",") + ")"
	case KMessage:
		for _, f := range d.Fields {
			dep := ""
			if f.Deprecated {
				dep = "!"
			}
			parts = append(parts, dep+s.shape(f.Type, depth))
		}
		return "M(" + strings.Join(parts, ",") + ")"
	case KUnion:
		for _, b := range d.Branches {
			parts = append(parts, s.DefShape(b.Def, depth+1))
		}
		return "U(" + strings.Join(parts, "|") + ")"
	}
	return "enum:" + d.BaseType()
}

// HasZeroSizeElem reports whether t contains an array or map whose element can occupy
// zero bytes on the wire (empty structs): counts are then unrelated to input length.
func (s *Schema) HasZeroSizeElem(t Type) bool { return s.hasZeroSizeElem(t, map[string]bool{}) }

func (s *Schema) hasZeroSizeElem(t Type, seen map[string]bool) bool {
	switch {
	case t.Array != nil:
		return s.MinWire(*t.Array) == 0 || s.hasZeroSizeElem(*t.Array, seen)
	case t.MapV != nil:
		return s.hasZeroSizeElem(*t.MapV, seen) // keys are primitives, never zero-sized
	case t.Prim != "":
		return false
	}
	d := s.Lookup(t.Named)
	if d == nil || d.Kind == KEnum || seen[d.Name] {
		return false
	}
	seen[d.Name] = true
	defer delete(seen, d.Name)
	for _, f := range d.Fields {
		if s.hasZeroSizeElem(f.Type, seen) {
			return true
		}
	}
	for _, b := range d.Branches {
		if s.hasZeroSizeElem(Type{Named: b.Def.Name}, seen) {
			return true
		}
	}
	return false
}

// HasDateKey reports whether a value of type t can hold a map keyed by date.
func (s *Schema) HasDateKey(t Type) bool { return s.hasDateKey(t, map[string]bool{}) }

func (s *Schema) hasDateKey(t Type, seen map[string]bool) bool {
	switch {
	case t.Array != nil:
		return s.hasDateKey(*t.Array, seen)
	case t.MapV != nil:
		return t.MapK == "date" || s.hasDateKey(*t.MapV, seen)
	case t.Prim != "":
		return false
	}
	d := s.Lookup(t.Named)
	if d == nil || d.Kind == KEnum || seen[d.Name] {
		return false
	}
	seen[d.Name] = true
	defer delete(seen, d.Name)
	for _, f := range d.Fields {
		if s.hasDateKey(f.Type, seen) {
			return true
		}
	}
	for _, b := range d.Branches {
		if s.hasDateKey(Type{Named: b.Def.Name}, seen) {
			return true
		}
	}
	return false
}

// HasMap reports whether a value of type t can hold a map.
func (s *Schema) HasMap(t Type) bool { return s.hasMap(t, map[string]bool{}) }

func (s *Schema) hasMap(t Type, seen map[string]bool) bool {
	switch {
	case t.Array != nil:
		return s.hasMap(*t.Array, seen)
	case t.MapV != nil:
		return true
	case t.Prim != "":
		return false
	}
	d := s.Lookup(t.Named)
	if d == nil || d.Kind == KEnum || seen[d.Name] {
		return false
	}
	seen[d.Name] = true
	defer delete(seen, d.Name)
	for _, f := range d.Fields {
		if s.hasMap(f.Type, seen) {
			return true
		}
	}
	for _, b := range d.Branches {
		if s.hasMap(Type{Named: b.Def.Name}, seen) {
			return true
		}
	}
	return false
}

// HasUnionBelow reports whether a value of type t can hold a union below its top level.
func (s *Schema) HasUnionBelow(t Type) bool { return s.hasUnionBelow(t, true, map[string]bool{}) }

func (s *Schema) hasUnionBelow(t Type, top bool, seen map[string]bool) bool {
	switch {
	case t.Array != nil:
		return s.hasUnionBelow(*t.Array, false, seen)
	case t.MapV != nil:
		return s.hasUnionBelow(*t.MapV, false, seen)
	case t.Prim != "":
		return false
	}
	d := s.Lookup(t.Named)
	if d == nil || d.Kind == KEnum || seen[d.Name] {
		return false
	}
	if d.Kind == KUnion && !top {
		return true
	}
	seen[d.Name] = true
	defer delete(seen, d.Name)
	for _, f := range d.Fields {
		if s.hasUnionBelow(f.Type, false, seen) {
			return true
		}
	}
	for _, b := range d.Branches {
		if s.hasUnionBelow(Type{Named: b.Def.Name}, false, seen) {
			return true
		}
	}
	return false
}

// Clone deep-copies a schema.
func (s *Schema) Clone() *Schema {
	c := &Schema{Name: s.Name, Combined: s.Combined, DeclSeed: s.DeclSeed, Consts: append([]Const(nil), s.Consts...)}
	for _, d := range s.Defs {
		c.Defs = append(c.Defs, cloneDef(d))
	}
	c.index()
	return c
}

func cloneDef(d *Def) *Def {
	c := *d
	c.Opts = append([]EnumOpt(nil), d.Opts...)
	c.Fields = make([]Field, len(d.Fields))
	for i, f := range d.Fields {
		c.Fields[i] = f
		c.Fields[i].Type = cloneType(f.Type)
	}
	c.Branches = make([]Branch, len(d.Branches))
	for i, b := range d.Branches {
		c.Branches[i] = Branch{Disc: b.Disc, Def: cloneDef(b.Def)}
	}
	return &c
}

func cloneType(t Type) Type {
	c := t
	if t.Array != nil {
		a := cloneType(*t.Array)
		c.Array = &a
	}
	if t.MapV != nil {
		v := cloneType(*t.MapV)
		c.MapV = &v
	}
	return c
}

// Reachable returns a copy of the schema cut down to the definitions that the named
// records need (their field types, transitively; a union comes with all its branches, a
// branch record with its union). Constants are dropped; the order of the remaining
// definitions is kept. It returns nil when a name is unknown.
func (s *Schema) Reachable(names ...string) *Schema {
	if s.byName == nil {
		s.index()
	}
	parent := map[string]string{}
	for _, d := range s.Defs {
		for _, b := range d.Branches {
			parent[b.Def.Name] = d.Name
		}
	}
	need := map[string]bool{}
	var visitType func(t Type)
	var visit func(name string)
	visit = func(name string) {
		if need[name] {
			return
		}
		d := s.Lookup(name)
		if d == nil {
			return
		}
		need[name] = true
		if p, ok := parent[name]; ok {
			visit(p)
		}
		for _, f := range d.Fields {
			visitType(f.Type)
		}
		for _, b := range d.Branches {
			visit(b.Def.Name)
		}
	}
	visitType = func(t Type) {
		switch {
		case t.Array != nil:
			visitType(*t.Array)
		case t.MapV != nil:
			visitType(*t.MapV)
		case t.Named != "":
			visit(t.Named)
		}
	}
	for _, n := range names {
		if s.Lookup(n) == nil {
			return nil
		}
		visit(n)
	}
	c := &Schema{Name: s.Name, Combined: s.Combined, DeclSeed: s.DeclSeed}
	for _, d := range s.Defs {
		if need[d.Name] {
			c.Defs = append(c.Defs, cloneDef(d))
		}
	}
	c.index()
	return c
}
