package schema

import "fmt"

// Core is a fixed population of schemas that puts every listed type shape into every
// kind of record at least once, independent of the seed. Shapes that today do not
// survive compilation of the generated code live in programs of their own so that they
// only exclude themselves.

func P(p string) Type          { return Type{Prim: p} }
func N(n string) Type          { return Type{Named: n} }
func A(t Type) Type            { return Type{Array: &t, Postfix: true} }
func A2(t Type) Type           { return Type{Array: &t} }
func M(k string, v Type) Type  { return Type{MapK: k, MapV: &v} }
func F(n string, t Type) Field { return Field{Name: n, Type: t} }
func MF(i uint8, n string, t Type) Field {
	return Field{Name: n, Type: t, Index: i}
}
func Dep(f Field) Field { f.Deprecated = true; return f }

func St(name string, fs ...Field) *Def { return &Def{Kind: KStruct, Name: name, Fields: fs} }
func Msg(name string, fs ...Field) *Def {
	SortFields(fs)
	return &Def{Kind: KMessage, Name: name, Fields: fs}
}
func Un(name string, bs ...Branch) *Def { return &Def{Kind: KUnion, Name: name, Branches: bs} }
func Br(d uint8, def *Def) Branch       { return Branch{Disc: d, Def: def} }
func En(name, base string, opts ...EnumOpt) *Def {
	return &Def{Kind: KEnum, Name: name, Base: base, Opts: opts}
}
func EO(n string, v int64) EnumOpt { return EnumOpt{Name: n, Value: v, UValue: uint64(v)} }

func mk(name string, defs ...*Def) *Schema {
	s := &Schema{Name: name, Defs: defs}
	s.index()
	return s
}

func Core() []*Schema {
	var out []*Schema
	// 1. every primitive in a struct and in a message
	var sf, mf []Field
	for i, p := range Primitives {
		sf = append(sf, F("f"+p, P(p)))
		mf = append(mf, MF(uint8(i+1), "m"+p, P(p)))
	}
	out = append(out, mk("prims", St("AllPrims", sf...), Msg("AllPrimsMsg", mf...)))

	// 2. arrays of every primitive
	sf, mf = nil, nil
	for i, p := range Primitives {
		sf = append(sf, F("a"+p, A(P(p))))
		mf = append(mf, MF(uint8(i+1), "b"+p, A2(P(p))))
	}
	out = append(out, mk("arrays", St("ArrPrims", sf...), Msg("ArrPrimsMsg", mf...)))

	// 3. maps keyed by every primitive
	sf, mf = nil, nil
	for i, p := range Primitives {
		vt := P("string")
		if i%3 == 1 {
			vt = P("int32")
		} else if i%3 == 2 {
			vt = N("Pt")
		}
		sf = append(sf, F("k"+p, M(p, vt)))
		mf = append(mf, MF(uint8(i+1), "n"+p, M(p, vt)))
	}
	out = append(out, mk("maps", St("Pt", F("x", P("int32")), F("lbl", P("string"))), St("MapKeys", sf...), Msg("MapKeysMsg", mf...)))

	// 4. enums over every base type
	var defs []*Def
	sf, mf = nil, nil
	for i, b := range EnumBases {
		name := "En" + b
		var d *Def
		if b[0] == 'u' || b == "byte" {
			d = &Def{Kind: KEnum, Name: name, Base: b, Opts: []EnumOpt{{Name: "Lo", UValue: 0}, {Name: "One", UValue: 1},
				{Name: "Hi", UValue: (uint64(1)<<uint(PrimSize(b)*8-1))*2 - 1}}}
		} else {
			bits := uint(PrimSize(b) * 8)
			d = &Def{Kind: KEnum, Name: name, Base: b, Opts: []EnumOpt{{Name: "Min", Value: -(int64(1) << (bits - 1))},
				{Name: "Neg", Value: -1}, {Name: "Zero", Value: 0}, {Name: "Max", Value: (int64(1) << (bits - 1)) - 1}}}
		}
		defs = append(defs, d)
		sf = append(sf, F("e"+b, N(name)))
		mf = append(mf, MF(uint8(i+1), "g"+b, N(name)))
	}
	defs = append(defs, &Def{Kind: KEnum, Name: "EnDefault", Opts: []EnumOpt{{Name: "A", UValue: 0}, {Name: "B", UValue: 4000000000}}})
	sf = append(sf, F("edef", N("EnDefault")))
	defs = append(defs, St("UsesEnums", sf...), Msg("UsesEnumsMsg", mf...))
	defs = append(defs, St("UsesFlags", F("fl", N("Fl")), F("after", P("byte"))),
		&Def{Kind: KEnum, Name: "Fl", Base: "uint16", Flags: true, Opts: []EnumOpt{{Name: "R", UValue: 1}, {Name: "W", UValue: 2}, {Name: "X", UValue: 4}}})
	out = append(out, mk("enums", defs...))

	// 5. nesting of records in every container context
	inner := St("Inner", F("x", P("int32")), F("s", P("string")))
	note := Msg("Note", MF(1, "txt", P("string")), MF(2, "n", P("uint16")), MF(3, "next", N("Note")), MF(4, "in", N("Inner")),
		MF(5, "ins", A(N("Inner"))), MF(6, "u", N("Shape")), MF(7, "byid", M("uint32", N("Inner"))))
	shape := Un("Shape",
		Br(1, St("Circle", F("r", P("float64")))),
		Br(2, Msg("Label", MF(1, "t", P("string")), MF(2, "inner", N("Inner")))),
		Br(3, St("Nothing")),
		Br(200, St("Pair", F("a", N("Inner")), F("b", N("Inner")))))
	outer := St("Outer", F("a", N("Inner")), F("bs", A(N("Inner"))), F("cs", M("string", N("Inner"))), F("m", N("Note")),
		F("u", N("Shape")), F("ms", A(N("Note"))), F("us", A(N("Shape"))), F("mm", M("int16", N("Note"))), F("um", M("guid", N("Shape"))),
		F("tail", P("uint32")))
	out = append(out, mk("nesting", inner, note, shape, outer))

	// 6. readonly, deprecated, opcodes, empty records
	ro := St("Ro", F("id", P("guid")), F("name", P("string")), F("tags", A(P("string"))), F("when", P("date")))
	ro.ReadOnly = true
	ro.OpCode = 0x12345678
	depm := Msg("DepMsg", MF(1, "keep", P("int32")), Dep(MF(2, "old", P("string"))), MF(3, "also", A(P("byte"))), Dep(MF(4, "oldm", N("DepMsg"))))
	depm.OpCode = 0x1
	empties := []*Def{St("EmptyS"), Msg("EmptyM"), St("HoldsEmpty", F("e", N("EmptyS")), F("m", N("EmptyM")), F("z", P("byte")))}
	out = append(out, mk("attrs", append([]*Def{ro, depm}, empties...)...))

	// 7. nested containers inside structs
	out = append(out, mk("deepstruct", St("Deep",
		F("aa", A(A(P("int32")))), F("ma", M("string", A(P("int32")))), F("am", A(M("string", P("bool")))),
		F("mm", M("uint8", M("string", P("float32")))), F("aaa", A2(A2(A2(P("string"))))), F("mam", M("int32", A(M("bool", P("date"))))),
		F("end", P("uint16")))))

	// 8. recursion through unions and messages
	out = append(out, mk("recursion",
		Un("List", Br(1, St("Cons", F("head", P("uint32")), F("tail", N("List")))), Br(2, St("Null"))),
		Msg("Tree", MF(1, "v", P("int64")), MF(2, "kids", A(N("Tree"))), MF(3, "named", M("string", N("Tree")))),
		St("Forest", F("l", N("List")), F("t", N("Tree")), F("n", P("byte")))))

	// 8a. nested arrays / maps of records inside structs
	out = append(out, mk("deeprecords",
		St("Cell", F("id", P("uint16")), F("lbl", P("string"))),
		Msg("CellMsg", MF(1, "id", P("uint16")), MF(2, "lbl", P("string"))),
		Un("CellU", Br(1, St("CellA", F("a", P("byte")))), Br(2, Msg("CellB", MF(1, "b", P("string"))))),
		St("Grid", F("rows", A(A(N("Cell")))), F("mrows", A(A(N("CellMsg")))), F("urows", A(A(N("CellU")))), F("tail", P("uint32"))),
		St("GridMaps", F("byrow", M("string", A(N("Cell")))), F("rowsof", A(M("uint8", N("CellMsg")))), F("deep", M("int32", M("string", N("Cell")))), F("tail", P("byte")))))

	// 8a'. structs whose fields are ONLY enums, only messages, only unions, only such structs
	// (no primitive anywhere near the top), in arrays and maps
	out = append(out, mk("recordonly",
		En("Tint", "uint8", EO("Red", 1), EO("Green", 2)),
		En("Far", "uint64", EO("Near", 0), EO("Away", 1<<40)),
		Msg("Note", MF(1, "t", P("string"))),
		Un("Either", Br(1, St("Lft", F("a", P("byte")))), Br(2, Msg("Rgt", MF(1, "b", P("string"))))),
		St("Style", F("fg", N("Tint")), F("bg", N("Tint"))),
		St("Span", F("from", N("Far")), F("to", N("Far"))),
		St("Notes", F("a", N("Note")), F("b", N("Note"))),
		St("Choice", F("e", N("Either"))),
		St("Look", F("s", N("Style")), F("n", N("Notes")), F("c", N("Choice"))),
		St("Sheet", F("styles", A(N("Style"))), F("spans", A(N("Span"))), F("notes", A(N("Notes"))), F("choices", A(N("Choice"))), F("looks", A(N("Look"))),
			F("bykey", M("string", N("Style"))), F("tail", P("uint32"))),
		Msg("SheetM", MF(1, "styles", A(N("Style"))), MF(2, "looks", A(N("Look"))), MF(3, "spans", M("uint16", N("Span"))))))

	// 8a-w. structs that hold NOTHING BUT structs, several levels above the first scalar,
	// as array elements and map values; once declared bottom-up, once top-down (forward
	// references), once with the holder in the middle
	{
		leaf := func(p string) *Def { return St(p+"Point", F("x", P("int32")), F("y", P("int32"))) }
		box := func(p string) *Def { return St(p+"Box", F("min", N(p+"Point")), F("max", N(p+"Point"))) }
		region := func(p string) *Def { return St(p+"Region", F("bounds", N(p+"Box"))) }
		zone := func(p string) *Def { return St(p+"Zone", F("a", N(p+"Region")), F("b", N(p+"Box"))) }
		hold := func(p string) *Def {
			return St(p+"Atlas", F("zones", A(N(p+"Zone"))), F("regions", A(N(p+"Region"))), F("boxes", A2(N(p+"Box"))), F("byname", M("string", N(p+"Region"))), F("tail", P("uint32")))
		}
		holdm := func(p string) *Def {
			return Msg(p+"AtlasM", MF(1, "zones", A(N(p+"Zone"))), MF(2, "regions", A(N(p+"Region"))), MF(3, "tail", P("uint32")))
		}
		out = append(out, mk("wrappers",
			leaf("Up"), box("Up"), region("Up"), zone("Up"), hold("Up"), holdm("Up"),
			holdm("Dn"), hold("Dn"), zone("Dn"), region("Dn"), box("Dn"), leaf("Dn"),
			region("Mx"), leaf("Mx"), hold("Mx"), zone("Mx"), holdm("Mx"), box("Mx")))
	}

	// 8a''. a union without members (the parser accepts it) as field, element and message
	// field: no value of these types exists, their decoders do
	out = append(out, mk("nomembers",
		&Def{Kind: KUnion, Name: "Nothing"},
		St("HoldsNothing", F("n", N("Nothing")), F("x", P("int32"))),
		St("ManyNothing", F("ns", A(N("Nothing"))), F("z", P("byte"))),
		Msg("MaybeNothing", MF(1, "n", N("Nothing")), MF(2, "x", P("int32"))),
		St("Plain", F("a", P("int32")))))

	// 8a-2b. records whose LAST decoding step reads nothing: a field-less struct as the last
	// field (also of a nested struct and of a message field), and as the first one
	out = append(out, mk("emptytail",
		St("Marker"),
		St("Tagged", F("name", P("string")), F("count", P("int32")), F("end", N("Marker"))),
		St("Envelope", F("id", P("guid")), F("body", N("Tagged"))),
		St("MarkerFirst", F("m", N("Marker")), F("x", P("int32"))),
		St("TwoMarkers", F("a", P("uint16")), F("m", N("Marker")), F("n", N("Marker"))),
		Msg("TaggedM", MF(1, "t", N("Tagged")), MF(2, "m", N("Marker"))),
		Un("TaggedU", Br(1, St("TaggedUA", F("t", N("Tagged")))), Br(2, St("TaggedUB")))))

	// 8a-3. maps with float keys whose values are containers (a NaN key cannot be looked up
	// again once stored)
	out = append(out, mk("floatkeys",
		St("FkArrays", F("a", M("float64", A(P("int32")))), F("b", M("float32", A(P("string")))), F("z", P("byte"))),
		St("FkMaps", F("m", M("float32", M("string", P("byte")))), F("n", M("float64", M("float64", A(P("uint16"))))), F("z", P("uint32"))),
		Msg("FkMsg", MF(1, "r", N("FkArrays")), MF(2, "m", N("FkMaps")), MF(3, "z", P("byte"))),
		St("FkRec", F("r", M("float64", N("FkArrays"))), F("z", P("byte")))))

	// 8f. a large program: 40 records each with two map fields (thresholds on the number
	// of definitions, file-wide counters in the generator)
	{
		var defs []*Def
		for i := 0; i < 40; i++ {
			name := fmt.Sprintf("Big%02d", i)
			if i%2 == 0 {
				defs = append(defs, St(name, F("m", M("string", P("int32"))), F("n", M("uint16", P("string"))), F("z", P("byte"))))
			} else {
				defs = append(defs, Msg(name, MF(1, "m", M("string", P("int32"))), MF(2, "n", M("uint16", P("string"))), MF(3, "z", P("byte"))))
			}
		}
		out = append(out, mk("bigprogram", defs...))
	}

	// 8b. wide records: fixed-size structs of 256 bytes and more (8-bit size arithmetic in a
	// generator or decoder wraps there), alone, nested with followers, in arrays, maps,
	// messages and unions
	var wf []Field
	for i := 0; i < 17; i++ {
		wf = append(wf, F(fmt.Sprintf("g%02d", i), P("guid")))
	}
	var mf2 []Field
	mf2 = append(mf2, F("id", P("guid")), F("at", P("date")), F("n", P("uint32")))
	for i := 0; i < 32; i++ {
		mf2 = append(mf2, F(fmt.Sprintf("m%02d", i), P("float64")))
	}
	out = append(out, mk("wide",
		St("Wide", wf...), St("Mixed", mf2...),
		St("HoldsWide", F("w", N("Wide")), F("after", P("uint32")), F("m", N("Mixed")), F("lbl", P("string"))),
		St("WideArr", F("ws", A(N("Wide"))), F("tail", P("uint16")), F("ms", A(N("Mixed"))), F("end", P("byte"))),
		St("WideMap", F("wm", M("string", N("Wide"))), F("tail", P("uint16"))),
		Msg("WideMsg", MF(1, "w", N("Wide")), MF(2, "ws", A(N("Mixed"))), MF(3, "after", P("uint32"))),
		Un("WideU", Br(1, St("WideB", F("w", N("Wide")), F("z", P("byte")))), Br(2, Msg("WideC", MF(1, "m", N("Mixed")), MF(2, "z", P("byte"))))),
		St("HoldsWideU", F("u", N("WideU")), F("after", P("int64")))))

	// 8d. containers of records that occupy zero bytes: a count larger than the remaining
	// input is a VALID encoding there
	out = append(out, mk("emptyelems",
		St("Unit"), St("Units2", F("a", N("Unit")), F("b", N("Unit"))),
		St("UnitArr", F("us", A(N("Unit")))), St("UnitArrTail", F("us", A(N("Unit"))), F("z", P("byte"))),
		St("Units2Arr", F("us", A(N("Units2"))), F("n", P("uint16"))),
		Msg("UnitMsg", MF(1, "us", A(N("Unit"))), MF(3, "after", P("uint32")))))
	out = append(out, mk("emptymap", St("Unit"), St("UnitMap", F("um", M("string", N("Unit"))), F("z", P("byte"))),
		Msg("UnitMapMsg", MF(2, "um", M("string", N("Unit"))), MF(3, "after", P("uint32")))))

	// 8c. deprecated fields inside structs (they stay on the wire, unlike in messages)
	out = append(out, mk("depstruct",
		St("DepS", F("a", P("int32")), Dep(F("old", P("int64"))), F("z", P("byte"))),
		St("DepArr", F("ds", A(N("DepS"))), F("tail", P("uint16"))),
		Msg("DepHolder", MF(1, "ds", A(N("DepS"))), MF(2, "after", P("uint32")), MF(3, "one", N("DepS")), MF(4, "dm", M("uint8", N("DepS")))),
		Un("DepU", Br(1, St("DepB", F("d", N("DepS")), Dep(F("gone", P("guid"))), F("k", P("uint16")))),
			Branch{Disc: 2, Def: St("DepOldBranch", F("x", P("int32"))), Deprecated: true},
			Branch{Disc: 3, Def: Msg("DepOldMsg", MF(1, "y", P("string"))), Deprecated: true})))

	// 8e. imported definitions (separate and combined import modes): typed enums, a struct,
	// a message and a union from a library file, used in every position
	for _, combined := range []bool{false, true} {
		imp := func(d *Def) *Def { d.Imported = true; return d }
		name := "importsep"
		if combined {
			name = "importcomb"
		}
		sch := mk(name,
			imp(En("LibLevel", "uint8", EO("Low", 1), EO("High", 200))),
			imp(En("LibOffset", "int16", EO("Neg", -2), EO("Pos", 300))),
			imp(En("LibWide", "uint64", EO("Zero", 0), EO("Big", 1<<40))),
			imp(En("LibPlain", "", EO("A", 1), EO("B", 2))),
			imp(St("LibPoint", F("x", P("int32")), F("lvl", N("LibLevel")), F("name", P("string")))),
			imp(Msg("LibNote", MF(1, "text", P("string")), MF(2, "at", N("LibPoint")), MF(3, "off", N("LibOffset")))),
			imp(Un("LibShape", Br(1, St("LibCircle", F("r", P("float32")))), Br(2, Msg("LibTag", MF(1, "t", P("string")))))),
			St("UsesLib", F("lvl", N("LibLevel")), F("v", P("uint16")), F("off", N("LibOffset")), F("w", N("LibWide")), F("pl", N("LibPlain")), F("p", N("LibPoint")), F("tail", P("byte"))),
			St("LibContainers", F("ps", A(N("LibPoint"))), F("ns", A(N("LibNote"))), F("sh", N("LibShape")), F("lv", M("uint8", N("LibOffset"))), F("end", P("uint16"))),
			Msg("LibMsg", MF(1, "lvl", N("LibLevel")), MF(2, "n", N("LibNote")), MF(3, "p", N("LibPoint")), MF(4, "m", M("string", N("LibOffset"))), MF(5, "sh", N("LibShape"))),
			Un("LibU", Br(1, St("LibUB", F("p", N("LibPoint")), F("o", N("LibOffset")))), Br(2, Msg("LibUM", MF(1, "n", N("LibNote"))))))
		sch.Combined = combined
		out = append(out, sch)
	}
	// maps whose values are imported records do not compile in separate mode today: apart
	{
		imp := func(d *Def) *Def { d.Imported = true; return d }
		out = append(out, mk("importmap", imp(St("LibPoint", F("x", P("int32")), F("name", P("string")))),
			St("LibByName", F("byname", M("string", N("LibPoint"))), F("end", P("uint16")))))
	}

	// 9. shapes known to be fragile at compile time: kept apart
	out = append(out, mk("enumarr", En("Col", "uint8", EO("R", 0), EO("G", 1)), St("EnumArr", F("cs", A(N("Col"))), F("n", P("byte")))))
	out = append(out, mk("enummap", En("Col", "uint8", EO("R", 0), EO("G", 1)), St("EnumMap", F("cm", M("string", N("Col"))), F("n", P("byte")))))
	out = append(out, mk("deepmsg", Msg("DeepMsg", MF(1, "aa", A(A(P("int32")))), MF(2, "ma", M("string", A(P("int32")))), MF(3, "am", A(M("string", P("bool")))),
		MF(4, "mm", M("uint8", M("string", P("float32")))))))
	out = append(out, mk("enummsg", En("Col", "int16", EO("R", -1), EO("G", 1)), Msg("EnumMsg", MF(1, "cs", A(N("Col"))), MF(2, "cm", M("guid", N("Col"))))))
	return out
}
