package val

import (
	"math"

	"verif/pkg/prng"
	"verif/pkg/schema"
)

type GenCfg struct {
	MaxDepth   int  // recursion depth through named records
	MaxElems   int  // typical container size bound
	LongProb   int  // 1/LongProb chance of a long string / big array (0 = never)
	LongLen    int  // length of long strings
	NoNilDist  bool // never mark containers as nil
	SubTick    bool // allow dates that are not tick aligned / not UTC
	WildDates  bool // also dates whose tick count the format leaves open: before 1970 off the tick grid, outside 1678..2262
	FullMsg    int  // percent chance that a message has every field set (0 = default mix)
	Ladder     int  // 1/Ladder chance that a string / byte array / small-element array takes a threshold size
	LadderMax  int  // largest ladder size allowed (0 = all)
	LadderBig  int  // one ladder hit in LadderBig is one of the sizes around the 64 KiB multiples
	Huge       int  // > 0: 1/Huge chance that ONE string of the value runs to megabytes (1 MiB+1, 3 MiB, 4 MiB+5)
	Bulky      int  // > 0: the first non-empty array or map of the value gets this many elements, NOT kept small (with LongProb/LongLen: megabytes in one container)
	MaxNodes   int  // > 0: after this many records the rest of the value is as shallow as its types allow (deep but narrow values)
	EmptyUnion int  // > 0: percent chance that a union has NO member set (a value Go code can hold; only encoders can be asked about it)
	Giant      int  // > 0: one array of fixed-width scalars in Giant has about 2^17 elements
}

// sizeLadder holds lengths around the powers of two where buffers, fast paths and narrow
// integer types change behaviour.
var sizeLadder = []int{255, 256, 257, 1023, 1024, 1025, 4095, 4096, 4097}
var sizeLadderBig = []int{65535, 65536, 65537, 131071, 131072, 131073, 196608}

func (g *Gen) ladder() (int, bool) {
	if g.small > 0 {
		return 0, false
	}
	if g.Cfg.Ladder <= 0 || !g.R.Chance(1, g.Cfg.Ladder) {
		return 0, false
	}
	l := sizeLadder[g.R.Intn(len(sizeLadder))]
	if g.Cfg.LadderBig > 0 && g.R.Chance(1, g.Cfg.LadderBig) {
		l = sizeLadderBig[g.R.Intn(len(sizeLadderBig))]
	}
	if g.Cfg.LadderMax > 0 && l > g.Cfg.LadderMax {
		return 0, false
	}
	return l, true
}

func DefaultCfg() GenCfg {
	return GenCfg{MaxDepth: 3, MaxElems: 4, LongProb: 40, LongLen: 300, SubTick: true, Ladder: 30, LadderBig: 12}
}

type Gen struct {
	S   *schema.Schema
	R   *prng.Rand
	Cfg GenCfg
	min map[string]int // minimal recursion depth needed per record; -1 = uninhabited
	// small > 0 while the elements of a many-element container are drawn: they stay tiny
	small int
	// giants counts the giant arrays drawn so far: one per generator (a value of megabytes
	// is enough; a dozen of them only costs time)
	giants int
	nodes  int // records generated so far (MaxNodes)
	bulky  int // bulky containers drawn so far
	huge   int // megabyte strings drawn so far
}

// manyLadder holds element counts around the preallocation hint of the stream decoders
// (64) and around one byte's worth of elements.
var manyLadder = []int{63, 64, 65, 66, 127, 128, 129, 255, 256, 257}

func (g *Gen) many() (int, bool) {
	if g.small > 0 {
		return 0, false
	}
	if _, ok := g.ladder(); !ok {
		return 0, false
	}
	if g.R.Chance(1, 6) {
		// now and then a thousand and more (counters and limits that only many SIBLINGS reach)
		return []int{999, 1000, 1001, 1024, 1025, 2049}[g.R.Intn(6)], true
	}
	return manyLadder[g.R.Intn(len(manyLadder))], true
}

func NewGen(s *schema.Schema, r *prng.Rand, cfg GenCfg) *Gen {
	g := &Gen{S: s, R: r, Cfg: cfg}
	g.computeMin()
	return g
}

const inf = 1 << 20

// computeMin: least nesting depth of named records a finite value of each record needs.
func (g *Gen) computeMin() {
	g.min = map[string]int{}
	recs := g.S.Records()
	for _, d := range recs {
		g.min[d.Name] = inf
	}
	for changed := true; changed; {
		changed = false
		for _, d := range recs {
			n := g.minOfDef(d)
			if n < g.min[d.Name] {
				g.min[d.Name] = n
				changed = true
			}
		}
	}
}

func (g *Gen) minOfType(t schema.Type) int {
	switch {
	case t.Array != nil, t.MapV != nil, t.Prim != "":
		return 0
	}
	d := g.S.Lookup(t.Named)
	if d == nil {
		return inf
	}
	if d.Kind == schema.KEnum {
		return 0
	}
	return g.min[d.Name]
}

func (g *Gen) minOfDef(d *schema.Def) int {
	switch d.Kind {
	case schema.KMessage:
		return 1
	case schema.KStruct:
		m := 0
		for _, f := range d.Fields {
			if x := g.minOfType(f.Type); x > m {
				m = x
			}
		}
		if m >= inf {
			return inf
		}
		return m + 1
	case schema.KUnion:
		m := inf
		for _, b := range d.Branches {
			if x := g.min[b.Def.Name]; x < m {
				m = x
			}
		}
		if m >= inf {
			return inf
		}
		return m + 1
	}
	return 0
}

// Inhabited reports whether finite values of the record exist.
func (g *Gen) Inhabited(name string) bool { return g.min[name] < inf }

// Record generates a value of the named record.
func (g *Gen) Record(name string) Value {
	d := g.S.Lookup(name)
	budget := g.Cfg.MaxDepth
	if m := g.min[name]; m > budget {
		budget = m
	}
	return g.def(d, budget)
}

func (g *Gen) Type(t schema.Type, budget int) Value {
	r := g.R
	switch {
	case t.Array != nil:
		n := g.count()
		if t.Array.Prim == "byte" || t.Array.Prim == "uint8" {
			if g.small == 0 && g.Cfg.LongProb > 0 && r.Chance(1, g.Cfg.LongProb) {
				n = g.Cfg.LongLen
			}
			if g.small == 0 && r.Chance(1, 8) {
				n = r.Intn(141)
			}
			if l, ok := g.ladder(); ok {
				n = l
			}
		} else if sz := schema.PrimSize(t.Array.Prim); sz > 0 && sz <= 8 {
			if l, ok := g.ladder(); ok && l <= 300 {
				n = l // 255/256/257 elements of a small scalar
			}
			if g.Cfg.Giant > 0 && g.small == 0 && g.giants == 0 && r.Chance(1, g.Cfg.Giant) {
				n = 1<<17 - 1 + r.Intn(3)
				g.giants++
			}
		}
		isMany := false
		if l, ok := g.many(); ok && n > 0 {
			n, isMany = l, true // many elements of any type: strings, records, containers
		}
		if g.Cfg.Bulky > 0 && g.bulky == 0 && n > 0 && g.small == 0 && t.Array.Prim == "" {
			g.bulky++
			n, isMany = g.Cfg.Bulky, false
		}
		if g.minOfType(*t.Array) > budget {
			n = 0
		}
		v := Value{}
		if fs := g.S.FixedWire(*t.Array); t.Array.Named != "" && fs > 0 && fs <= 64 && g.Cfg.Giant > 0 && g.small == 0 && g.giants == 0 && r.Chance(1, g.Cfg.Giant) {
			g.giants++
			// a GIANT array of fixed-size records (2^16 of them): one drawn element repeated
			g.small++
			e := g.Type(*t.Array, budget)
			g.small--
			n = 1<<16 - 1 + r.Intn(3)
			v.Elems = make([]Value, n)
			for i := range v.Elems {
				v.Elems[i] = e
			}
			return v
		}
		if isMany {
			g.small++
		}
		for i := 0; i < n; i++ {
			v.Elems = append(v.Elems, g.Type(*t.Array, budget))
		}
		if isMany {
			g.small--
		}
		if n == 0 && !g.Cfg.NoNilDist && r.Bool() {
			v.Nil = true
		}
		return v
	case t.MapV != nil:
		n := g.count()
		isMany := false
		if l, ok := g.many(); ok && n > 0 {
			n, isMany = l, true
		}
		if g.minOfType(*t.MapV) > budget {
			n = 0
		}
		v := Value{}
		seen := map[string]bool{}
		if isMany {
			g.small++
			defer func() { g.small-- }()
		}
		for i := 0; i < n; i++ {
			k := g.key(t.MapK)
			kb := string(keyBytes(k))
			if seen[kb] {
				continue
			}
			seen[kb] = true
			v.Keys = append(v.Keys, k)
			v.Vals = append(v.Vals, g.Type(*t.MapV, budget))
		}
		if len(v.Keys) == 0 && !g.Cfg.NoNilDist && r.Bool() {
			v.Nil = true
		}
		return v
	case t.Prim != "":
		return g.prim(t.Prim)
	}
	d := g.S.Lookup(t.Named)
	if d == nil {
		return Value{}
	}
	if d.Kind == schema.KEnum {
		return g.enum(d)
	}
	return g.def(d, budget)
}

func (g *Gen) count() int {
	if g.small > 0 {
		return g.R.Intn(2)
	}
	switch g.R.Intn(6) {
	case 0, 1:
		return 0
	case 2:
		return 1
	}
	return g.R.Range(1, g.Cfg.MaxElems)
}

func (g *Gen) def(d *schema.Def, budget int) Value {
	r := g.R
	g.nodes++
	if g.Cfg.MaxNodes > 0 && g.nodes > g.Cfg.MaxNodes {
		if m := g.min[d.Name]; m < budget {
			budget = m // the spine is long enough: what hangs off it stays minimal
		}
	}
	switch d.Kind {
	case schema.KStruct:
		v := Value{}
		for _, f := range d.Fields {
			v.Elems = append(v.Elems, g.Type(f.Type, budget-1))
		}
		return v
	case schema.KMessage:
		v := Value{}
		mode := r.Intn(4) // 0: none, 1: all, else random subset
		if g.Cfg.FullMsg > 0 && r.Intn(100) < g.Cfg.FullMsg {
			mode = 1
		}
		for _, f := range d.Fields {
			if g.minOfType(f.Type) > budget-1 {
				continue
			}
			if mode == 0 || (mode >= 2 && r.Bool()) {
				continue
			}
			v.Fields = append(v.Fields, MsgField{Index: f.Index, V: g.Type(f.Type, budget-1)})
		}
		return v
	case schema.KUnion:
		if g.Cfg.EmptyUnion > 0 && r.Chance(g.Cfg.EmptyUnion, 100) {
			return Value{}
		}
		var ok []int
		for i, b := range d.Branches {
			if g.min[b.Def.Name] <= budget-1 {
				ok = append(ok, i)
			}
		}
		if len(ok) == 0 {
			// fall back to the shallowest branch
			best := 0
			for i, b := range d.Branches {
				if g.min[b.Def.Name] < g.min[d.Branches[best].Def.Name] {
					best = i
				}
			}
			ok = []int{best}
		}
		b := d.Branches[ok[r.Intn(len(ok))]]
		body := g.def(b.Def, budget-1)
		out := Value{Disc: b.Disc, Body: &body}
		if len(ok) > 1 && r.Chance(1, 8) {
			// a Go value may have several members set: only one goes on the wire
			b2 := d.Branches[ok[r.Intn(len(ok))]]
			if b2.Disc != b.Disc {
				out.Also = append(out.Also, MsgField{Index: b2.Disc, V: g.def(b2.Def, budget-1)})
			}
		}
		return out
	}
	return Value{}
}

func (g *Gen) enum(d *schema.Def) Value {
	bits := uint(schema.PrimSize(d.BaseType()) * 8)
	mask := ^uint64(0)
	if bits < 64 {
		mask = (uint64(1) << bits) - 1
	}
	if len(d.Opts) > 0 && g.R.Chance(3, 4) {
		o := d.Opts[g.R.Intn(len(d.Opts))]
		if d.Unsigned() {
			return Value{U: o.UValue & mask}
		}
		return Value{U: uint64(o.Value) & mask}
	}
	// undeclared values are legal on the wire too
	return Value{U: g.intBits(bits)}
}

// intBits draws a boundary-biased bit pattern of the given width.
func (g *Gen) intBits(bits uint) uint64 {
	mask := ^uint64(0)
	if bits < 64 {
		mask = (uint64(1) << bits) - 1
	}
	r := g.R
	switch r.Intn(8) {
	case 0:
		return 0
	case 1:
		return 1
	case 2:
		return mask // -1 / max unsigned
	case 3:
		return uint64(1) << (bits - 1) // min signed
	case 4:
		return (uint64(1) << (bits - 1)) - 1 // max signed
	case 5:
		return uint64(r.Intn(256))
	}
	return r.Uint64() & mask
}

func (g *Gen) prim(p string) Value {
	r := g.R
	switch p {
	case "bool":
		return Value{U: uint64(r.Intn(2))}
	case "byte", "uint8":
		return Value{U: g.intBits(8)}
	case "uint16", "int16":
		return Value{U: g.intBits(16)}
	case "uint32", "int32":
		return Value{U: g.intBits(32)}
	case "uint64", "int64":
		return Value{U: g.intBits(64)}
	case "float32":
		specials := []uint32{0, 0x80000000, 0x7f800000, 0xff800000, 0x7fc00000, 0x7fa00001, 0xffc12345, 1, 0x007fffff,
			0x3f800000, 0x7f7fffff}
		if r.Bool() {
			return Value{U: uint64(specials[r.Intn(len(specials))])}
		}
		return Value{U: uint64(uint32(r.Uint64()))}
	case "float64":
		specials := []uint64{0, 1 << 63, 0x7ff0000000000000, 0xfff0000000000000, 0x7ff8000000000000, 0x7ff4000000000001,
			0xfff8123456789abc, 1, 0x000fffffffffffff, math.Float64bits(1), math.Float64bits(math.MaxFloat64)}
		if r.Bool() {
			return Value{U: specials[r.Intn(len(specials))]}
		}
		return Value{U: r.Uint64()}
	case "string":
		return Value{B: g.str()}
	case "guid":
		switch r.Intn(4) {
		case 0:
			return Value{B: make([]byte, 16)}
		case 1:
			b := make([]byte, 16)
			for i := range b {
				b[i] = byte(i + 1)
			}
			return Value{B: b}
		}
		return Value{B: r.Bytes(16)}
	case "date":
		return Value{Date: g.date()}
	}
	return Value{}
}

func (g *Gen) str() []byte {
	r := g.R
	if g.Cfg.Huge > 0 && g.huge == 0 && g.small == 0 && r.Chance(1, g.Cfg.Huge) {
		g.huge++
		b := make([]byte, []int{1<<20 + 1, 3 << 20, 1<<22 + 5}[r.Intn(3)])
		x := r.Uint64() | 1
		for i := range b {
			x ^= x << 13
			x ^= x >> 7
			x ^= x << 17
			b[i] = 'a' + byte(x%26)
		}
		return b
	}
	if l, ok := g.ladder(); ok {
		b := r.Bytes(l)
		for i := range b {
			b[i] = 'a' + b[i]%26
		}
		return b
	}
	if g.small == 0 && g.Cfg.LongProb > 0 && r.Chance(1, g.Cfg.LongProb) {
		b := r.Bytes(g.Cfg.LongLen)
		for i := range b {
			b[i] = 'a' + b[i]%26
		}
		return b
	}
	if g.small == 0 && r.Chance(1, 8) {
		// every length up to a few small buffers' worth turns up over a batch (inline
		// scratch arrays, small-string fast paths: 16, 32, 64, 128 and their neighbours)
		b := r.Bytes(r.Intn(141))
		for i := range b {
			b[i] = 'a' + b[i]%26
		}
		return b
	}
	switch r.Intn(8) {
	case 0:
		return []byte{}
	case 1:
		return []byte{byte('a' + r.Intn(26))}
	case 2:
		// not UTF-8: a Go string is a byte string. Runs of one, two, three and more bytes
		// that no decoder of UTF-8 accepts (a replacement character per run or per byte is 3
		// bytes: runs of three keep their length, all others do not), cut characters, an
		// encoded surrogate half, an overlong form, plain random bytes
		switch r.Intn(8) {
		case 0:
			return []byte{0xff, 0xfe, 0x80}
		case 1:
			return []byte("caf\xe9 au lait")
		case 2:
			return []byte("a\xe2\x82")
		case 3:
			return []byte("\xff\xfe\xfd\xfc\xfb tail")
		case 4:
			return []byte("x\xed\xa0\x80y\xc0\xaf")
		case 5:
			return []byte("\x80")
		default:
			return r.Bytes(r.Range(1, 14))
		}
	case 3:
		return []byte{'a', 0, 'b'} // embedded NUL
	case 4:
		return []byte("héllo 世界")
	}
	n := r.Range(1, 12)
	b := r.Bytes(n)
	for i := range b {
		b[i] = 'a' + b[i]%26
	}
	return b
}

const maxNanos = math.MaxInt64

func (g *Gen) date() *Date {
	r := g.R
	d := &Date{}
	if g.Cfg.WildDates && r.Chance(1, 3) {
		switch r.Intn(3) {
		case 0:
			d.Nanos = -int64(r.Range(1, 1<<40))*100 - int64(r.Range(1, 99))
		case 1:
			d.Far, d.Sec, d.Nanos = true, -int64(r.Range(1<<34, 1<<36)), int64(r.Intn(1000000000)) // ~ year 1400..-200
		default:
			d.Far, d.Sec, d.Nanos = true, int64(r.Range(1<<34, 1<<36)), int64(r.Intn(1000000000)) // ~ year 2500..4100
		}
		return d
	}
	switch r.Intn(8) {
	case 0:
		d.Zero = true
	case 1:
		d.Nanos = 100 // tick 1
	case 2:
		d.Nanos = -100 * int64(r.Range(1, 1000000)) // before 1970, tick aligned
	case 3:
		d.Nanos = (maxNanos / 100) * 100 // latest representable tick
	case 4:
		d.Nanos = -(maxNanos / 100) * 100
	case 5:
		d.Nanos = 1600000000_000000000 + int64(r.Intn(1000000000))/100*100
	default:
		d.Nanos = int64(r.Uint64()>>2) / 100 * 100
	}
	if !d.Zero && g.Cfg.SubTick && d.Nanos > 0 && d.Nanos < maxNanos-1000 && r.Chance(1, 3) {
		d.Nanos += int64(r.Intn(100)) // sub-tick part, truncated on the wire
	}
	if !d.Zero && g.Cfg.SubTick && r.Chance(1, 3) {
		d.Offset = (r.Intn(27) - 13) * 3600
	}
	if !d.Zero && d.Nanos/100 == 0 {
		// instants inside tick 0 are the zero time on the wire: keep them, normalisation handles it
	}
	return d
}

// key draws a map key of a primitive type. NaN float keys are legal Go map keys (each
// insert makes a new entry that only iteration finds again) and legal on the wire; a map
// holds each NaN BIT PATTERN at most once here, so entries stay identifiable by their key
// bytes.
func (g *Gen) key(p string) Value {
	for {
		v := g.prim(p)
		switch p {
		case "float32":
			if v.U == 0x80000000 {
				v.U = 0 // -0 == +0 as a Go map key
			}
		case "float64":
			if v.U == 1<<63 {
				v.U = 0
			}
		case "date":
			// map keys compare by instant+location in Go; keep keys UTC and tick aligned
			if v.Date != nil && !v.Date.Zero {
				v.Date.Offset = 0
				v.Date.Nanos = v.Date.Nanos / 100 * 100
				if v.Date.Nanos == 0 {
					v.Date.Zero = true
				}
			}
		}
		return v
	}
}
