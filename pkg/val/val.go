// Package val holds the simulator's value trees: schema-typed values independent of any
// Go type, their boundary-biased generator, the wire format's normalisations and a
// structural comparison that reports the first differing path.
package val

import (
	"bytes"
	"fmt"
	"sort"

	"verif/pkg/schema"
)

type Date struct {
	Zero   bool  `json:"zero,omitempty"`   // the Go zero time
	Nanos  int64 `json:"nanos,omitempty"`  // Unix nanoseconds otherwise
	Offset int   `json:"offset,omitempty"` // zone offset in seconds (0 = UTC): sender-side only
	// Far dates lie outside what int64 Unix nanoseconds can hold (before 1678 or after
	// 2262): Sec seconds since the epoch plus Nanos (0..999999999). Their wire value is not
	// defined by the format, so only encoder-against-encoder checks use them.
	Far bool  `json:"far,omitempty"`
	Sec int64 `json:"sec,omitempty"`
}

// Ticks is the wire value: 100ns ticks, zero time = 0.
func (d Date) Ticks() int64 {
	if d.Zero {
		return 0
	}
	if d.Far {
		return d.Sec*10000000 + d.Nanos/100
	}
	return d.Nanos / 100
}

type MsgField struct {
	Index uint8 `json:"i"`
	V     Value `json:"v"`
}

// Value is typed by the schema type it is used with; only the relevant members are set.
type Value struct {
	U      uint64     `json:"u,omitempty"` // bool, integers (two's complement, width-truncated), float bits, enum raw
	B      []byte     `json:"b,omitempty"` // string bytes; guid (16 bytes, canonical text order)
	Date   *Date      `json:"date,omitempty"`
	Elems  []Value    `json:"elems,omitempty"` // array elements; struct fields in order
	Keys   []Value    `json:"keys,omitempty"`  // map entries, in an order
	Vals   []Value    `json:"vals,omitempty"`
	Fields []MsgField `json:"fields,omitempty"` // message: present fields sorted by index
	Disc   uint8      `json:"disc,omitempty"`   // union
	Body   *Value     `json:"body,omitempty"`
	Also   []MsgField `json:"also,omitempty"` // union: further populated members (sender side only; the lowest discriminator wins)
	Nil    bool       `json:"nil,omitempty"`  // array/map: nil rather than empty (sender side only)
	Wide   bool       `json:"wide,omitempty"` // marker: contains a long string/array (cost control)
}

// Normalise applies the wire format's own normalisations to a value about to be sent,
// yielding what the receiver must see: deprecated message fields dropped, nil == empty,
// dates reduced to ticks in UTC.
func Normalise(s *schema.Schema, t schema.Type, v Value) Value { return normalise(s, t, v, true) }

// Canon is Normalise for a value that was received: deprecated fields are a sender-side
// matter (they are never put on the wire); whatever arrived is kept.
func Canon(s *schema.Schema, t schema.Type, v Value) Value { return normalise(s, t, v, false) }

func normalise(s *schema.Schema, t schema.Type, v Value, dropDep bool) Value {
	switch {
	case t.Array != nil:
		out := Value{}
		for _, e := range v.Elems {
			out.Elems = append(out.Elems, normalise(s, *t.Array, e, dropDep))
		}
		return out
	case t.MapV != nil:
		out := Value{}
		for i := range v.Keys {
			out.Keys = append(out.Keys, normalise(s, schema.Type{Prim: t.MapK}, v.Keys[i], dropDep))
			out.Vals = append(out.Vals, normalise(s, *t.MapV, v.Vals[i], dropDep))
		}
		return out
	case t.Prim == "date":
		d := Date{}
		if v.Date != nil {
			tk := v.Date.Ticks()
			if tk == 0 {
				d.Zero = true
			} else {
				d.Nanos = tk * 100
			}
		} else {
			d.Zero = true
		}
		return Value{Date: &d}
	case t.Prim == "string" || t.Prim == "guid":
		return Value{B: append([]byte(nil), v.B...)}
	case t.Prim != "":
		return Value{U: v.U}
	}
	d := s.Lookup(t.Named)
	if d == nil {
		return v
	}
	switch d.Kind {
	case schema.KEnum:
		return Value{U: v.U}
	case schema.KStruct:
		out := Value{}
		for i, f := range d.Fields {
			if i < len(v.Elems) {
				out.Elems = append(out.Elems, normalise(s, f.Type, v.Elems[i], dropDep))
			}
		}
		return out
	case schema.KMessage:
		out := Value{}
		for _, mf := range v.Fields {
			fd := msgField(d, mf.Index)
			if fd == nil || (fd.Deprecated && dropDep) {
				continue
			}
			out.Fields = append(out.Fields, MsgField{Index: mf.Index, V: normalise(s, fd.Type, mf.V, dropDep)})
		}
		return out
	case schema.KUnion:
		// a union carries exactly one member: the populated one with the lowest discriminator
		disc, body := v.Disc, v.Body
		for i := range v.Also {
			if body == nil || v.Also[i].Index < disc {
				disc, body = v.Also[i].Index, &v.Also[i].V
			}
		}
		out := Value{Disc: disc}
		if body != nil {
			for _, b := range d.Branches {
				if b.Disc == disc {
					nb := normalise(s, schema.Type{Named: b.Def.Name}, *body, dropDep)
					out.Body = &nb
				}
			}
		}
		return out
	}
	return v
}

func msgField(d *schema.Def, idx uint8) *schema.Field {
	for i := range d.Fields {
		if d.Fields[i].Index == idx {
			return &d.Fields[i]
		}
	}
	return nil
}

// MsgFieldDef is exported for other packages.
func MsgFieldDef(d *schema.Def, idx uint8) *schema.Field { return msgField(d, idx) }

// Restrict projects a value of type t in schema `from` onto schema `to` (same names):
// message fields unknown to `to` are dropped. Used for version-skew oracles.
func Restrict(from, to *schema.Schema, t schema.Type, v Value) Value {
	switch {
	case t.Array != nil:
		out := Value{}
		for _, e := range v.Elems {
			out.Elems = append(out.Elems, Restrict(from, to, *t.Array, e))
		}
		return out
	case t.MapV != nil:
		out := Value{Keys: v.Keys}
		for _, e := range v.Vals {
			out.Vals = append(out.Vals, Restrict(from, to, *t.MapV, e))
		}
		return out
	case t.Prim != "":
		return v
	}
	d := from.Lookup(t.Named)
	dt := to.Lookup(t.Named)
	if d == nil || dt == nil {
		return v
	}
	switch d.Kind {
	case schema.KStruct:
		out := Value{}
		for i, f := range d.Fields {
			if i < len(v.Elems) {
				out.Elems = append(out.Elems, Restrict(from, to, f.Type, v.Elems[i]))
			}
		}
		return out
	case schema.KMessage:
		out := Value{}
		for _, mf := range v.Fields {
			fd := msgField(d, mf.Index)
			if fd == nil || msgField(dt, mf.Index) == nil {
				continue
			}
			out.Fields = append(out.Fields, MsgField{Index: mf.Index, V: Restrict(from, to, fd.Type, mf.V)})
		}
		return out
	case schema.KUnion:
		out := Value{Disc: v.Disc}
		if v.Body != nil {
			for _, b := range d.Branches {
				if b.Disc == v.Disc {
					nb := Restrict(from, to, schema.Type{Named: b.Def.Name}, *v.Body)
					out.Body = &nb
				}
			}
		}
		return out
	}
	return v
}

// Diff compares two normalised values of type t and returns "" when equal, else the path
// of the first difference with a short description. Maps compare as multisets of entries.
func Diff(s *schema.Schema, t schema.Type, a, b Value) string { return diff(s, t, a, b, "$") }

func diff(s *schema.Schema, t schema.Type, a, b Value, path string) string {
	switch {
	case t.Array != nil:
		if len(a.Elems) != len(b.Elems) {
			return fmt.Sprintf("%s: array length %d != %d", path, len(a.Elems), len(b.Elems))
		}
		for i := range a.Elems {
			if d := diff(s, *t.Array, a.Elems[i], b.Elems[i], fmt.Sprintf("%s[%d]", path, i)); d != "" {
				return d
			}
		}
		return ""
	case t.MapV != nil:
		if len(a.Keys) != len(b.Keys) {
			return fmt.Sprintf("%s: map size %d != %d", path, len(a.Keys), len(b.Keys))
		}
		ia, ib := sortedEntries(a), sortedEntries(b)
		for n := range ia {
			ka, kb := a.Keys[ia[n]], b.Keys[ib[n]]
			if d := diff(s, schema.Type{Prim: t.MapK}, ka, kb, fmt.Sprintf("%s{key#%d}", path, n)); d != "" {
				return d
			}
			if d := diff(s, *t.MapV, a.Vals[ia[n]], b.Vals[ib[n]], fmt.Sprintf("%s{%s}", path, keyText(ka))); d != "" {
				return d
			}
		}
		return ""
	case t.Prim == "date":
		ta, tb := int64(0), int64(0)
		if a.Date != nil {
			ta = a.Date.Ticks()
		}
		if b.Date != nil {
			tb = b.Date.Ticks()
		}
		if ta != tb {
			return fmt.Sprintf("%s: date ticks %d != %d", path, ta, tb)
		}
		return ""
	case t.Prim == "string" || t.Prim == "guid":
		if !bytes.Equal(a.B, b.B) {
			return fmt.Sprintf("%s: %s %q != %q", path, t.Prim, clip(a.B), clip(b.B))
		}
		return ""
	case t.Prim != "":
		if a.U != b.U {
			return fmt.Sprintf("%s: %s %#x != %#x", path, t.Prim, a.U, b.U)
		}
		return ""
	}
	d := s.Lookup(t.Named)
	if d == nil {
		return path + ": unknown type " + t.Named
	}
	switch d.Kind {
	case schema.KEnum:
		if a.U != b.U {
			return fmt.Sprintf("%s: enum %#x != %#x", path, a.U, b.U)
		}
	case schema.KStruct:
		if len(a.Elems) != len(b.Elems) {
			return fmt.Sprintf("%s: struct arity %d != %d", path, len(a.Elems), len(b.Elems))
		}
		for i, f := range d.Fields {
			if i >= len(a.Elems) {
				break
			}
			if x := diff(s, f.Type, a.Elems[i], b.Elems[i], path+"."+f.Name); x != "" {
				return x
			}
		}
	case schema.KMessage:
		i, j := 0, 0
		for i < len(a.Fields) || j < len(b.Fields) {
			switch {
			case j >= len(b.Fields) || (i < len(a.Fields) && a.Fields[i].Index < b.Fields[j].Index):
				return fmt.Sprintf("%s: message field %d present != absent", path, a.Fields[i].Index)
			case i >= len(a.Fields) || b.Fields[j].Index < a.Fields[i].Index:
				return fmt.Sprintf("%s: message field %d absent != present", path, b.Fields[j].Index)
			}
			fd := msgField(d, a.Fields[i].Index)
			if fd == nil {
				return fmt.Sprintf("%s: message field %d unknown", path, a.Fields[i].Index)
			}
			if x := diff(s, fd.Type, a.Fields[i].V, b.Fields[j].V, fmt.Sprintf("%s.%s", path, fd.Name)); x != "" {
				return x
			}
			i++
			j++
		}
	case schema.KUnion:
		if (a.Body == nil) != (b.Body == nil) {
			return fmt.Sprintf("%s: union populated %v != %v", path, a.Body != nil, b.Body != nil)
		}
		if a.Body == nil {
			return ""
		}
		if a.Disc != b.Disc {
			return fmt.Sprintf("%s: union discriminator %d != %d", path, a.Disc, b.Disc)
		}
		for _, br := range d.Branches {
			if br.Disc == a.Disc {
				return diff(s, schema.Type{Named: br.Def.Name}, *a.Body, *b.Body, fmt.Sprintf("%s<%s>", path, br.Def.Name))
			}
		}
		return fmt.Sprintf("%s: union discriminator %d unknown", path, a.Disc)
	}
	return ""
}

func clip(b []byte) []byte {
	if len(b) > 24 {
		return b[:24]
	}
	return b
}

func keyBytes(v Value) []byte {
	if v.Date != nil {
		t := uint64(v.Date.Ticks())
		return []byte{byte(t >> 56), byte(t >> 48), byte(t >> 40), byte(t >> 32), byte(t >> 24), byte(t >> 16), byte(t >> 8), byte(t)}
	}
	if v.B != nil {
		return v.B
	}
	u := v.U
	return []byte{byte(u >> 56), byte(u >> 48), byte(u >> 40), byte(u >> 32), byte(u >> 24), byte(u >> 16), byte(u >> 8), byte(u)}
}

func keyText(v Value) string { return fmt.Sprintf("%x", clip(keyBytes(v))) }

// KeyBytes gives a canonical byte key for a map key value.
func KeyBytes(v Value) []byte { return keyBytes(v) }

func sortedEntries(m Value) []int {
	idx := make([]int, len(m.Keys))
	for i := range idx {
		idx[i] = i
	}
	sort.SliceStable(idx, func(i, j int) bool { return bytes.Compare(keyBytes(m.Keys[idx[i]]), keyBytes(m.Keys[idx[j]])) < 0 })
	return idx
}

// Reorder returns a copy of map value m with its entries permuted by perm.
func Reorder(m Value, perm []int) Value {
	out := m
	out.Keys = make([]Value, len(m.Keys))
	out.Vals = make([]Value, len(m.Vals))
	for i, p := range perm {
		out.Keys[i] = m.Keys[p]
		out.Vals[i] = m.Vals[p]
	}
	return out
}

// HasSkew reports whether v (a value of the sender's schema `from`) carries a message
// field that the reader's schema `to` does not know or has marked deprecated.
func HasSkew(from, to *schema.Schema, t schema.Type, v Value) bool {
	switch {
	case t.Array != nil:
		for _, e := range v.Elems {
			if HasSkew(from, to, *t.Array, e) {
				return true
			}
		}
		return false
	case t.MapV != nil:
		for _, e := range v.Vals {
			if HasSkew(from, to, *t.MapV, e) {
				return true
			}
		}
		return false
	case t.Prim != "":
		return false
	}
	d, dt := from.Lookup(t.Named), to.Lookup(t.Named)
	if d == nil || dt == nil {
		return false
	}
	switch d.Kind {
	case schema.KStruct:
		for i, f := range d.Fields {
			if i < len(v.Elems) && HasSkew(from, to, f.Type, v.Elems[i]) {
				return true
			}
		}
	case schema.KMessage:
		for _, mf := range v.Fields {
			fd, fo := msgField(d, mf.Index), msgField(dt, mf.Index)
			if fd == nil {
				continue
			}
			if fo == nil || fo.Deprecated || HasSkew(from, to, fd.Type, mf.V) {
				return true
			}
		}
	case schema.KUnion:
		if v.Body != nil {
			for _, b := range d.Branches {
				if b.Disc == v.Disc {
					return HasSkew(from, to, schema.Type{Named: b.Def.Name}, *v.Body)
				}
			}
		}
	}
	return false
}

// SkewUnderNestedStruct reports whether some message field that the reader's schema does
// not know (or has deprecated) sits, at any depth, inside a STRUCT that is not the root
// record. A struct has no length prefix on the wire, so a reader that steps over a nested
// struct by re-computing its size from what it understood is thrown off exactly then.
func SkewUnderNestedStruct(from, to *schema.Schema, t schema.Type, v Value) bool {
	return skewUnder(from, to, t, v, true)
}

func skewUnder(from, to *schema.Schema, t schema.Type, v Value, root bool) bool {
	switch {
	case t.Array != nil:
		for _, e := range v.Elems {
			if skewUnder(from, to, *t.Array, e, false) {
				return true
			}
		}
		return false
	case t.MapV != nil:
		for _, e := range v.Vals {
			if skewUnder(from, to, *t.MapV, e, false) {
				return true
			}
		}
		return false
	case t.Prim != "":
		return false
	}
	d := from.Lookup(t.Named)
	if d == nil {
		return false
	}
	switch d.Kind {
	case schema.KStruct:
		if !root {
			return HasSkew(from, to, t, v)
		}
		for i, f := range d.Fields {
			if i < len(v.Elems) && skewUnder(from, to, f.Type, v.Elems[i], false) {
				return true
			}
		}
	case schema.KMessage:
		for _, mf := range v.Fields {
			if fd := msgField(d, mf.Index); fd != nil && skewUnder(from, to, fd.Type, mf.V, false) {
				return true
			}
		}
	case schema.KUnion:
		if v.Body != nil {
			for _, b := range d.Branches {
				if b.Disc == v.Disc {
					// a union branch struct is length-delimited by the union itself
					return skewUnder(from, to, schema.Type{Named: b.Def.Name}, *v.Body, true)
				}
			}
		}
	}
	return false
}
