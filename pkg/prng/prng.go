// Package prng is the only source of randomness in the simulator: a splitmix64-seeded
// xoshiro256** generator with hierarchical, label-derived streams. It never touches
// math/rand or the clock, so a (seed, labels...) tuple names exactly one stream.
package prng

import "math/bits"

type Rand struct {
	s [4]uint64
}

func splitmix(x *uint64) uint64 {
	*x += 0x9e3779b97f4a7c15
	z := *x
	z = (z ^ (z >> 30)) * 0xbf58476d1ce4e5b9
	z = (z ^ (z >> 27)) * 0x94d049bb133111eb
	return z ^ (z >> 31)
}

// New returns the root stream of a seed.
func New(seed uint64) *Rand {
	r := &Rand{}
	x := seed
	for i := range r.s {
		r.s[i] = splitmix(&x)
	}
	return r
}

func hashLabel(h uint64, label string) uint64 {
	// FNV-1a folded into the running state
	h ^= 0xcbf29ce484222325
	for i := 0; i < len(label); i++ {
		h ^= uint64(label[i])
		h *= 0x100000001b3
	}
	return h
}

// Derive returns an independent stream named by (seed, labels..., nums...) without
// consuming anything from a parent: the same names give the same stream in any process.
func Derive(seed uint64, label string, nums ...uint64) *Rand {
	h := hashLabel(seed*0x9e3779b97f4a7c15+1, label)
	for _, n := range nums {
		x := h ^ (n + 0x632be59bd9b4e019)
		h = splitmix(&x)
	}
	return New(h)
}

// Fork derives a child stream from the current state and a label, consuming one value.
func (r *Rand) Fork(label string) *Rand {
	return New(hashLabel(r.Uint64(), label))
}

func (r *Rand) Uint64() uint64 {
	s := &r.s
	result := bits.RotateLeft64(s[1]*5, 7) * 9
	t := s[1] << 17
	s[2] ^= s[0]
	s[3] ^= s[1]
	s[1] ^= s[2]
	s[0] ^= s[3]
	s[2] ^= t
	s[3] = bits.RotateLeft64(s[3], 45)
	return result
}

// Intn returns a value in [0,n). n<=0 yields 0.
func (r *Rand) Intn(n int) int {
	if n <= 1 {
		return 0
	}
	return int(r.Uint64() % uint64(n))
}

// Range returns a value in [lo,hi].
func (r *Rand) Range(lo, hi int) int {
	if hi <= lo {
		return lo
	}
	return lo + r.Intn(hi-lo+1)
}

func (r *Rand) Bool() bool { return r.Uint64()&1 == 1 }

// Chance is true with probability num/den.
func (r *Rand) Chance(num, den int) bool { return r.Intn(den) < num }

func (r *Rand) Bytes(n int) []byte {
	b := make([]byte, n)
	for i := 0; i < n; i += 8 {
		v := r.Uint64()
		for j := 0; j < 8 && i+j < n; j++ {
			b[i+j] = byte(v >> (8 * j))
		}
	}
	return b
}

// Perm returns a permutation of [0,n).
func (r *Rand) Perm(n int) []int {
	p := make([]int, n)
	for i := range p {
		p[i] = i
	}
	for i := n - 1; i > 0; i-- {
		j := r.Intn(i + 1)
		p[i], p[j] = p[j], p[i]
	}
	return p
}

// Pick returns a random index weighted by w.
func (r *Rand) Pick(w []int) int {
	tot := 0
	for _, x := range w {
		tot += x
	}
	if tot <= 0 {
		return 0
	}
	k := r.Intn(tot)
	for i, x := range w {
		if k < x {
			return i
		}
		k -= x
	}
	return len(w) - 1
}
