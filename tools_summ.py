#!/usr/bin/env python3
import json,sys,glob
pat=sys.argv[1] if len(sys.argv)>1 else '*'
for f in sorted(glob.glob('/verif/replays/%s-*.json'%pat)):
    r=json.load(open(f)); v=r['violation']; s=r['scenario']
    print(f.split('/')[-1][:14], v['class'],'|',v['signature'][:160],'|',v['detail'][:260].replace('\n',' '),'| enc',s.get('encoder'),'dec',s.get('decoder'),'rd',s.get('reader'),'sched',(s.get('sched') or {}).get('name'),'old',s.get('old_peer'), s.get('types') or s.get('type'), s['prog'], s['mask'], 'shr',r.get('shrink_steps'))
