#!/bin/bash
# Runs every registered quick check on /repo as it is, one after the other, and prints the
# last line of each (the evidence files are rewritten by the checks themselves).
cd /verif
export GOFLAGS=-mod=mod GOPROXY=off GOSUMDB=off GOTOOLCHAIN=local
mkdir -p bin && go build -o bin/verif ./cmd/verif || exit 2
for id in C01 C02 C03 C04 C05 C06 C07 C08 C09 C10 C14 C19 C20; do
  ./bin/verif check $id --tier ${1:-quick} 2>&1 | tail -1 | cut -c1-300
done
