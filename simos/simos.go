// Package simos is the os shim the instrumenter routes the command-line tools (and the
// import loader) through: every call is counted in program order, logged, and may be
// failed, torn or turned into a process crash according to an explicit fault plan given
// in the environment. With no plan it is a transparent pass-through to package os.
package simos

import (
	"fmt"
	"io/fs"
	"os"
	"strconv"
	"strings"
	"sync"
	"syscall"
)

type fault struct {
	index   int
	kind    string // error | torn | crash-before | crash-after
	errno   syscall.Errno
	partial int
}

var (
	mu      sync.Mutex
	opCount int
	plan    []fault
	oplog   *os.File
	loaded  bool
)

var errnos = map[string]syscall.Errno{"EACCES": syscall.EACCES, "ENOENT": syscall.ENOENT, "EMFILE": syscall.EMFILE, "EIO": syscall.EIO,
	"ENOSPC": syscall.ENOSPC, "EFBIG": syscall.EFBIG, "EROFS": syscall.EROFS, "EEXIST": syscall.EEXIST, "EDQUOT": syscall.EDQUOT, "EINTR": syscall.EINTR}

// plan syntax: VERIF_FAULTPLAN="7:error:EACCES;9:torn:ENOSPC:13;11:crash-before"
func load() {
	if loaded {
		return
	}
	loaded = true
	for _, item := range strings.Split(os.Getenv("VERIF_FAULTPLAN"), ";") {
		f := strings.Split(strings.TrimSpace(item), ":")
		if len(f) < 2 {
			continue
		}
		idx, err := strconv.Atoi(f[0])
		if err != nil {
			continue
		}
		ft := fault{index: idx, kind: f[1], errno: syscall.EIO}
		if len(f) > 2 {
			if e, ok := errnos[f[2]]; ok {
				ft.errno = e
			}
		}
		if len(f) > 3 {
			ft.partial, _ = strconv.Atoi(f[3])
		}
		plan = append(plan, ft)
	}
	if p := os.Getenv("VERIF_OPLOG"); p != "" {
		oplog, _ = os.OpenFile(p, os.O_CREATE|os.O_WRONLY|os.O_APPEND, 0o644)
	}
}

func crash() {
	if oplog != nil {
		oplog.Sync()
	}
	syscall.Kill(syscall.Getpid(), syscall.SIGKILL)
	select {}
}

// begin counts one operation. It returns the fault to apply to it (nil if none) after
// having handled crash-before.
func begin(op, path string, size int) *fault {
	mu.Lock()
	defer mu.Unlock()
	load()
	idx := opCount
	opCount++
	if oplog != nil {
		fmt.Fprintf(oplog, "%d\t%s\t%s\t%d\n", idx, op, path, size)
	}
	for i := range plan {
		if plan[i].index == idx {
			if plan[i].kind == "crash-before" {
				crash()
			}
			return &plan[i]
		}
	}
	return nil
}

// end handles crash-after.
func end(f *fault) {
	if f != nil && f.kind == "crash-after" {
		crash()
	}
}

func pathErr(op, path string, e syscall.Errno) error {
	return &fs.PathError{Op: op, Path: path, Err: e}
}

func failing(f *fault) bool { return f != nil && (f.kind == "error" || f.kind == "torn") }

// ---------------------------------------------------------------------------------
// File

type File struct {
	f    *os.File
	name string
}

func wrap(f *os.File, err error) (*File, error) {
	if err != nil {
		return nil, err
	}
	return &File{f: f, name: f.Name()}, nil
}

func (f *File) Name() string { return f.name }

// Fd exposes the descriptor (not faulted).
func (f *File) Fd() uintptr { return f.f.Fd() }

func (f *File) Read(p []byte) (int, error) {
	ft := begin("read", f.name, len(p))
	if failing(ft) {
		return 0, pathErr("read", f.name, ft.errno)
	}
	n, err := f.f.Read(p)
	end(ft)
	return n, err
}

func (f *File) Write(p []byte) (int, error) {
	ft := begin("write", f.name, len(p))
	if failing(ft) {
		n := 0
		if ft.kind == "torn" {
			n = ft.partial
			if n >= len(p) {
				n = len(p) - 1
			}
			if n < 0 {
				n = 0
			}
			f.f.Write(p[:n])
		}
		return n, pathErr("write", f.name, ft.errno)
	}
	n, err := f.f.Write(p)
	end(ft)
	return n, err
}

func (f *File) WriteString(s string) (int, error) { return f.Write([]byte(s)) }

func (f *File) Close() error {
	ft := begin("close", f.name, 0)
	if failing(ft) {
		f.f.Close()
		return pathErr("close", f.name, ft.errno)
	}
	err := f.f.Close()
	end(ft)
	return err
}

func (f *File) Sync() error {
	ft := begin("sync", f.name, 0)
	if failing(ft) {
		return pathErr("sync", f.name, ft.errno)
	}
	err := f.f.Sync()
	end(ft)
	return err
}

func (f *File) Stat() (os.FileInfo, error) {
	ft := begin("fstat", f.name, 0)
	if failing(ft) {
		return nil, pathErr("stat", f.name, ft.errno)
	}
	fi, err := f.f.Stat()
	end(ft)
	return fi, err
}

func (f *File) Readdir(n int) ([]os.FileInfo, error) {
	ft := begin("readdir", f.name, 0)
	if failing(ft) {
		return nil, pathErr("readdirent", f.name, ft.errno)
	}
	fi, err := f.f.Readdir(n)
	end(ft)
	return fi, err
}

func (f *File) ReadDir(n int) ([]os.DirEntry, error) {
	ft := begin("readdir", f.name, 0)
	if failing(ft) {
		return nil, pathErr("readdirent", f.name, ft.errno)
	}
	de, err := f.f.ReadDir(n)
	end(ft)
	return de, err
}

func (f *File) Readdirnames(n int) ([]string, error) {
	ft := begin("readdir", f.name, 0)
	if failing(ft) {
		return nil, pathErr("readdirent", f.name, ft.errno)
	}
	names, err := f.f.Readdirnames(n)
	end(ft)
	return names, err
}

func (f *File) Seek(off int64, whence int) (int64, error) { return f.f.Seek(off, whence) }

func (f *File) Chmod(m os.FileMode) error {
	ft := begin("chmod", f.name, 0)
	if failing(ft) {
		return pathErr("chmod", f.name, ft.errno)
	}
	err := f.f.Chmod(m)
	end(ft)
	return err
}

func (f *File) Truncate(n int64) error {
	ft := begin("truncate", f.name, int(n))
	if failing(ft) {
		return pathErr("truncate", f.name, ft.errno)
	}
	err := f.f.Truncate(n)
	end(ft)
	return err
}

// ---------------------------------------------------------------------------------
// package-level functions

func Open(name string) (*File, error) {
	ft := begin("open", name, 0)
	if failing(ft) {
		return nil, pathErr("open", name, ft.errno)
	}
	f, err := wrap(os.Open(name))
	end(ft)
	return f, err
}

func Create(name string) (*File, error) {
	ft := begin("create", name, 0)
	if failing(ft) {
		return nil, pathErr("open", name, ft.errno)
	}
	f, err := wrap(os.Create(name))
	end(ft)
	return f, err
}

func OpenFile(name string, flag int, perm os.FileMode) (*File, error) {
	op := "open"
	if flag&(os.O_CREATE|os.O_TRUNC|os.O_WRONLY|os.O_RDWR) != 0 {
		op = "create"
	}
	ft := begin(op, name, 0)
	if failing(ft) {
		return nil, pathErr("open", name, ft.errno)
	}
	f, err := wrap(os.OpenFile(name, flag, perm))
	end(ft)
	return f, err
}

func CreateTemp(dir, pattern string) (*File, error) {
	ft := begin("createtemp", dir+"/"+pattern, 0)
	if failing(ft) {
		return nil, pathErr("open", dir+"/"+pattern, ft.errno)
	}
	f, err := wrap(os.CreateTemp(dir, pattern))
	end(ft)
	return f, err
}

func ReadFile(name string) ([]byte, error) {
	ft := begin("readfile", name, 0)
	if failing(ft) {
		return nil, pathErr("open", name, ft.errno)
	}
	b, err := os.ReadFile(name)
	end(ft)
	return b, err
}

// WriteFile behaves like os.WriteFile (truncate, then write): a failure leaves what a real
// failing write would leave.
func WriteFile(name string, data []byte, perm os.FileMode) error {
	ft := begin("writefile", name, len(data))
	if failing(ft) {
		if ft.kind == "torn" {
			n := ft.partial
			if n >= len(data) {
				n = len(data) - 1
			}
			if n < 0 {
				n = 0
			}
			os.WriteFile(name, data[:n], perm)
			return pathErr("write", name, ft.errno)
		}
		return pathErr("open", name, ft.errno)
	}
	err := os.WriteFile(name, data, perm)
	end(ft)
	return err
}

func Rename(oldpath, newpath string) error {
	ft := begin("rename", oldpath+" -> "+newpath, 0)
	if failing(ft) {
		return &os.LinkError{Op: "rename", Old: oldpath, New: newpath, Err: ft.errno}
	}
	err := os.Rename(oldpath, newpath)
	end(ft)
	return err
}

func Remove(name string) error {
	ft := begin("remove", name, 0)
	if failing(ft) {
		return pathErr("remove", name, ft.errno)
	}
	err := os.Remove(name)
	end(ft)
	return err
}

func RemoveAll(name string) error {
	ft := begin("remove", name, 0)
	if failing(ft) {
		return pathErr("remove", name, ft.errno)
	}
	err := os.RemoveAll(name)
	end(ft)
	return err
}

func Stat(name string) (os.FileInfo, error) {
	ft := begin("stat", name, 0)
	if failing(ft) {
		return nil, pathErr("stat", name, ft.errno)
	}
	fi, err := os.Stat(name)
	end(ft)
	return fi, err
}

func Lstat(name string) (os.FileInfo, error) {
	ft := begin("stat", name, 0)
	if failing(ft) {
		return nil, pathErr("lstat", name, ft.errno)
	}
	fi, err := os.Lstat(name)
	end(ft)
	return fi, err
}

func ReadDir(name string) ([]os.DirEntry, error) {
	ft := begin("readdir", name, 0)
	if failing(ft) {
		return nil, pathErr("open", name, ft.errno)
	}
	de, err := os.ReadDir(name)
	end(ft)
	return de, err
}

func Mkdir(name string, perm os.FileMode) error {
	ft := begin("mkdir", name, 0)
	if failing(ft) {
		return pathErr("mkdir", name, ft.errno)
	}
	err := os.Mkdir(name, perm)
	end(ft)
	return err
}

func MkdirAll(name string, perm os.FileMode) error {
	ft := begin("mkdir", name, 0)
	if failing(ft) {
		return pathErr("mkdir", name, ft.errno)
	}
	err := os.MkdirAll(name, perm)
	end(ft)
	return err
}

func MkdirTemp(dir, pattern string) (string, error) {
	ft := begin("mkdir", dir+"/"+pattern, 0)
	if failing(ft) {
		return "", pathErr("mkdir", dir, ft.errno)
	}
	s, err := os.MkdirTemp(dir, pattern)
	end(ft)
	return s, err
}

func Chmod(name string, m os.FileMode) error {
	ft := begin("chmod", name, 0)
	if failing(ft) {
		return pathErr("chmod", name, ft.errno)
	}
	err := os.Chmod(name, m)
	end(ft)
	return err
}

func Chtimes(name string, a, m interface{}) error { return nil }

func Truncate(name string, size int64) error {
	ft := begin("truncate", name, int(size))
	if failing(ft) {
		return pathErr("truncate", name, ft.errno)
	}
	err := os.Truncate(name, size)
	end(ft)
	return err
}

func Link(o, n string) error {
	ft := begin("link", o+" -> "+n, 0)
	if failing(ft) {
		return &os.LinkError{Op: "link", Old: o, New: n, Err: ft.errno}
	}
	err := os.Link(o, n)
	end(ft)
	return err
}

func Symlink(o, n string) error {
	ft := begin("link", o+" -> "+n, 0)
	if failing(ft) {
		return &os.LinkError{Op: "symlink", Old: o, New: n, Err: ft.errno}
	}
	err := os.Symlink(o, n)
	end(ft)
	return err
}

func Getwd() (string, error) {
	ft := begin("getwd", "", 0)
	if failing(ft) {
		return "", ft.errno
	}
	s, err := os.Getwd()
	end(ft)
	return s, err
}

// Exit flushes the op log and exits; it is an operation so that a crash can be placed
// just before a normal exit.
func Exit(code int) {
	ft := begin("exit", strconv.Itoa(code), 0)
	_ = ft
	if oplog != nil {
		oplog.Close()
	}
	os.Exit(code)
}
