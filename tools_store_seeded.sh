#!/bin/bash
# Confirms a sub-agent's seeded change (tools_confirm_seeded.sh) and, when everything holds,
# stores it as seeded/<ID>-<round>/ with the confirmation recorded in meta.json.
# usage: tools_store_seeded.sh <srcdir with _seeded> <ID> <round letter> <origin text>
src=$1; id=$2; rd=$3; origin=$4
cd /verif
line=$(./tools_confirm_seeded.sh $src $id-$rd 2>&1 | tail -1)
echo "$line"
case "$line" in
  *"demo_without=0 build=0 vet=0 suite=0 demo_with=1"*) ;;
  *) echo "NOT STORED"; exit 1;;
esac
dst=seeded/$id-$rd
rm -rf $dst; mkdir -p $dst
cp -r $src/_seeded/. $dst/
head=$(git -C /repo log --format=%h -1)
python3 - "$dst/meta.json" "$origin" "$head" <<'PY'
import json,sys
p,origin,head=sys.argv[1:4]
m=json.load(open(p))
m['origin']=origin
m['confirmed']={"how":"tools_confirm_seeded.sh in a fresh scratch worktree of /repo at HEAD "+head,
 "demo_without_patch":"exit 0","patch":"applies, go build ./... and go vet ./main/... ok",
 "existing_suite_with_patch":"go test -vet=off -count=1 ./... exit 0","demo_with_patch":"exit 1"}
json.dump(m,open(p,'w'),indent=1)
PY
echo "stored $dst"
