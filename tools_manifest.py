#!/usr/bin/env python3
"""Regenerates MANIFEST.json from the table below (kept in one place so the file stays valid)."""
import json
ENV = "export GOFLAGS=-mod=mod GOPROXY=off GOSUMDB=off GOTOOLCHAIN=local"
BUILD = f"cd /verif && {ENV} && mkdir -p bin && go build -o bin/verif ./cmd/verif"
def cmd(pid, tier): return f"{BUILD} && ./bin/verif check {pid} --tier {tier}"
checks = json.load(open('/verif/manifest_checks.json'))
na = json.load(open('/verif/manifest_na.json'))
m = {
 "version": 1,
 "setup_cmd": BUILD,
 "hooks": {
  "guard": "verif",
  "enable": "no hooks are committed to /repo: every seam (map iteration order, make() sizes, loop steps, statement yields, os calls) is inserted by go/ast+go/types rewriting of a scratch copy of /repo's working tree at check time (DESIGN.md 3.2)",
  "baseline_off_cmd": "cd /repo && GOFLAGS=-mod=mod GOPROXY=off GOSUMDB=off GOTOOLCHAIN=local go test -vet=off -count=1 -timeout 25m ./...",
  "source_commits": [],
  "add_only": True
 },
 "engines": [{"name": "verif", "path": "/verif/cmd/verif", "serves_properties": [c["property_id"] for c in checks],
   "kind_free_text": "deterministic simulation: seeded scenarios (program, value, transport pairing, chunk schedule, fault trace, map order, interleaving) executed against the real generator output and runtime, oracles from an independent reference codec"}],
 "checks": [],
 "not_applicable": na,
 "notes": "Every check rebuilds an instrumented scratch copy of /repo's working tree, regenerates its programs with the real generator and compiles them. Exit 0 held / 1 VIOLATION / 2 harness trouble. VERIF_SEED replaces the first seed."
}
for c in checks:
    pid = c["property_id"]
    m["checks"].append({
      "property_id": pid,
      "quick_cmd": cmd(pid, "quick"),
      "thorough_cmd": cmd(pid, "thorough"),
      "evidence_file": f"/verif/evidence/{pid}.json",
      "replay_cmd_template": f"{BUILD} && ./bin/verif replay {{path}}",
      "engine": "verif",
      "level_claimed": {"category": c["category"], "text": c["text"], "design_ref": c["design_ref"]},
      "level_note": c["note"],
      "technique": c["technique"],
    })
json.dump(m, open('/verif/MANIFEST.json','w'), indent=1)
print("wrote MANIFEST.json with", len(checks), "checks")
