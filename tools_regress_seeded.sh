#!/bin/bash
# Runs every stored seeded change against the check of its own property (quick tier), three
# at a time, and prints one line each. Neither /repo nor /verif's evidence is touched
# (tools_run_seeded.sh works on scratch copies).
# usage: tools_regress_seeded.sh [suffix...]   (default: all)
cd /verif
list=""
for d in seeded/*/; do
  d=${d%/}; n=$(basename $d); id=${n%%-*}
  if [ $# -gt 0 ]; then ok=0; for s in "$@"; do [ "${n##*-}" = "$s" ] && ok=1; done; [ $ok = 1 ] || continue; fi
  list="$list $d:$id"
done
echo $list | tr ' ' '\n' | xargs -P 3 -I{} sh -c 'x={}; ./tools_run_seeded.sh ${x%%:*} ${x##*:} 2>&1 | tail -1 | cut -c1-260'
