#!/bin/bash
# Runs every stored seeded change against the check of its own property (quick tier) and
# prints one line each; /repo is reverted after every change.
# usage: tools_regress_seeded.sh [suffix...]   (default: all)
cd /verif
for d in seeded/*/; do
  d=${d%/}; n=$(basename $d); id=${n%%-*}
  if [ $# -gt 0 ]; then ok=0; for s in "$@"; do [ "${n##*-}" = "$s" ] && ok=1; done; [ $ok = 1 ] || continue; fi
  ./tools_run_seeded.sh $d $id 2>&1 | tail -1 | cut -c1-260
done
