// Package simrt is the runtime that instrumented copies of 200sc/bebop (and of the code
// it generates) call into. It is stdlib-only. With no simulator attached every entry
// point is a semantic no-op: MapEntries yields Go's own iteration order, Alloc and Step
// only count, Yield returns at once.
package simrt

import (
	"fmt"
	"math"
	"reflect"
	"sort"
	"sync"
	"sync/atomic"
	"time"
	"unsafe"
)

// ---------------------------------------------------------------------------------
// map iteration order (seam S4)

type Entry[K comparable, V any] struct {
	K K
	V V
}

// Order strategies.
const (
	OrderNative    = 0 // Go's own (random) order: simulator not attached
	OrderCanonical = 1 // sorted by key
	OrderReverse   = 2
	OrderRotate    = 3 // canonical rotated by one: the cheapest order that differs
	OrderShuffle   = 4 // permutation drawn from the run's order stream
)

type mapOrderState struct {
	strategy int
	seed     uint64
	calls    uint64
}

var mo mapOrderState

// SetMapOrder attaches (or with OrderNative detaches) the map-order seam. Every
// subsequent range over a map in instrumented code draws its order from (seed, call#).
func SetMapOrder(strategy int, seed uint64) {
	mo = mapOrderState{strategy: strategy, seed: seed}
}

// MapOrderCalls reports how many instrumented map ranges ran since SetMapOrder.
func MapOrderCalls() uint64 { return mo.calls }

func mix(x uint64) uint64 {
	x += 0x9e3779b97f4a7c15
	x = (x ^ (x >> 30)) * 0xbf58476d1ce4e5b9
	x = (x ^ (x >> 27)) * 0x94d049bb133111eb
	return x ^ (x >> 31)
}

// MapEntries snapshots m and returns its entries in the simulator's order.
func MapEntries[K comparable, V any](m map[K]V) []Entry[K, V] {
	es := make([]Entry[K, V], 0, len(m))
	for k, v := range m {
		es = append(es, Entry[K, V]{k, v})
	}
	st := mo.strategy
	if ts := currentTask(); ts != nil {
		st = ts.mapStrategy
	}
	if st == OrderNative || len(es) < 2 {
		if st != OrderNative {
			bumpMapCalls()
		}
		return es
	}
	sort.SliceStable(es, func(i, j int) bool {
		return lessKey(reflect.ValueOf(&es[i].K).Elem(), reflect.ValueOf(&es[j].K).Elem())
	})
	n := bumpMapCalls()
	switch st {
	case OrderReverse:
		for i, j := 0, len(es)-1; i < j; i, j = i+1, j-1 {
			es[i], es[j] = es[j], es[i]
		}
	case OrderRotate:
		first := es[0]
		copy(es, es[1:])
		es[len(es)-1] = first
	case OrderShuffle:
		seed := mo.seed
		if ts := currentTask(); ts != nil {
			seed = ts.mapSeed
		}
		// the permutation is a function of (seed, map size) only, so one map is ranged in
		// the same order however many other ranges ran before (Size() vs Marshal paths)
		_ = n
		x := mix(seed ^ mix(uint64(len(es))))
		for i := len(es) - 1; i > 0; i-- {
			x = mix(x)
			j := int(x % uint64(i+1))
			es[i], es[j] = es[j], es[i]
		}
	}
	return es
}

func bumpMapCalls() uint64 {
	if ts := currentTask(); ts != nil {
		ts.mapCalls++
		return ts.mapCalls
	}
	mo.calls++
	return mo.calls
}

var timeType = reflect.TypeOf(time.Time{})

// floatBits reads the raw bits of a float key (a conversion through float64 may quiet a
// signalling float32 NaN and make two keys look alike).
func floatBits(v reflect.Value) uint64 {
	if !v.CanAddr() {
		return math.Float64bits(v.Float())
	}
	if v.Kind() == reflect.Float32 {
		return uint64(*(*uint32)(v.Addr().UnsafePointer()))
	}
	return *(*uint64)(v.Addr().UnsafePointer())
}

func lessKey(a, b reflect.Value) bool {
	switch a.Kind() {
	case reflect.Bool:
		return !a.Bool() && b.Bool()
	case reflect.Int, reflect.Int8, reflect.Int16, reflect.Int32, reflect.Int64:
		return a.Int() < b.Int()
	case reflect.Uint, reflect.Uint8, reflect.Uint16, reflect.Uint32, reflect.Uint64, reflect.Uintptr:
		return a.Uint() < b.Uint()
	case reflect.Float32, reflect.Float64:
		x, y := a.Float(), b.Float()
		if x != x || y != y { // NaNs sort first, among themselves by their bit pattern
			if x != x && y != y {
				return floatBits(a) < floatBits(b)
			}
			return x != x
		}
		return x < y
	case reflect.String:
		return a.String() < b.String()
	case reflect.Array:
		for i := 0; i < a.Len(); i++ {
			if lessKey(a.Index(i), b.Index(i)) {
				return true
			}
			if lessKey(b.Index(i), a.Index(i)) {
				return false
			}
		}
		return false
	case reflect.Struct:
		if a.Type() == timeType && a.CanInterface() {
			return a.Interface().(time.Time).Before(b.Interface().(time.Time))
		}
	}
	return fmt.Sprintf("%#v", a) < fmt.Sprintf("%#v", b)
}

// ---------------------------------------------------------------------------------
// allocation and step budgets (seam S6)

type Sentinel struct {
	Kind  string // "alloc" or "steps"
	Value int64
	Limit int64
}

func (s *Sentinel) Error() string {
	return fmt.Sprintf("simrt: %s budget exceeded (%d > %d)", s.Kind, s.Value, s.Limit)
}

type budget struct {
	active     bool
	allocLimit int64
	allocUsed  int64
	stepLimit  int64
	stepsUsed  int64
	maxAlloc   int64 // largest single request seen
}

var bud budget

// SetBudget arms the per-call budgets; limits <= 0 mean "count only".
func SetBudget(allocBytes, steps int64) {
	bud = budget{active: true, allocLimit: allocBytes, stepLimit: steps}
}

// ClearBudget disarms the budgets and returns what was used.
func ClearBudget() (allocUsed, stepsUsed int64) {
	a, s := bud.allocUsed, bud.stepsUsed
	bud = budget{}
	return a, s
}

type integer interface {
	~int | ~int8 | ~int16 | ~int32 | ~int64 | ~uint | ~uint8 | ~uint16 | ~uint32 | ~uint64 | ~uintptr
}

// Alloc accounts for make(T, n) where each element is size bytes, and panics with a
// *Sentinel when the armed budget is exceeded. It returns n unchanged.
func Alloc[N integer](n N, size uintptr) N {
	if !bud.active {
		return n
	}
	if n > 0 {
		req := int64(n)
		if req < 0 || uint64(n) > 1<<40 {
			req = 1 << 40
		}
		if size == 0 {
			size = 1
		}
		bytes := req * int64(size)
		if bytes > bud.maxAlloc {
			bud.maxAlloc = bytes
		}
		bud.allocUsed += bytes
		if bud.allocLimit > 0 && bud.allocUsed > bud.allocLimit {
			panic(&Sentinel{Kind: "alloc", Value: bud.allocUsed, Limit: bud.allocLimit})
		}
	}
	return n
}

// Step accounts for one loop iteration.
func Step() {
	if !bud.active {
		return
	}
	bud.stepsUsed++
	if bud.stepLimit > 0 && bud.stepsUsed > bud.stepLimit {
		panic(&Sentinel{Kind: "steps", Value: bud.stepsUsed, Limit: bud.stepLimit})
	}
}

// ---------------------------------------------------------------------------------
// probes: rare-condition counters

var probes [64]uint64

func Probe(i int)             { probes[i&63]++ }
func ProbeCount(i int) uint64 { return probes[i&63] }

// ---------------------------------------------------------------------------------
// cooperative scheduling (seam S5), used by C14 builds only

// TaskState is per-task simulator state; only the baton holder runs, so no locking.
type TaskState struct {
	ID          int
	mapStrategy int
	mapSeed     uint64
	mapCalls    uint64
	Steps       uint64
}

type scheduler struct {
	attached atomic.Bool
	current  *TaskState
	yield    func(site int)
}

var sch scheduler

func currentTask() *TaskState {
	if !sch.attached.Load() {
		return nil
	}
	return sch.current
}

// AttachScheduler installs the yield callback. The callback is invoked on the calling
// task's goroutine and must return only when that task holds the baton again.
func AttachScheduler(yield func(site int)) {
	sch.yield = yield
	sch.current = nil
	sch.attached.Store(true)
}

func DetachScheduler() {
	sch.attached.Store(false)
	sch.yield = nil
	sch.current = nil
}

// SetCurrentTask is called by the scheduler whenever the baton changes hands.
func SetCurrentTask(ts *TaskState) { sch.current = ts }

func NewTaskState(id, mapStrategy int, mapSeed uint64) *TaskState {
	return &TaskState{ID: id, mapStrategy: mapStrategy, mapSeed: mapSeed}
}

var idleYields, idleLimit atomic.Int64

// SetIdleLimit arms (n > 0) or disarms the statement budget for instrumented code that runs
// with no scheduler attached, and resets the count.
func SetIdleLimit(n int64) { idleLimit.Store(n); idleYields.Store(0) }

// ResetIdle restarts the count.
func ResetIdle() { idleYields.Store(0) }

// Yield is inserted before every statement of instrumented functions (C14 builds).
func Yield(site int) {
	if !sch.attached.Load() {
		// outside a scheduler: a runaway of the code under test (a loop that never ends
		// because an earlier call corrupted shared state, say) is stopped after IdleLimit
		// statements since the last ResetIdle
		if lim := idleLimit.Load(); lim > 0 && idleYields.Add(1) > lim {
			idleYields.Store(0)
			panic(&Sentinel{Kind: "hang", Value: lim + 1, Limit: lim})
		}
		return
	}
	if sch.current != nil {
		sch.current.Steps++
	}
	sch.yield(site)
}

// ---------------------------------------------------------------------------------
// cooperative synchronisation (C14 builds): a lock held by a descheduled task must not
// block the baton holder for real, and the race rules need to see lock ownership.

// SyncHook is told about every acquire/release so that the scheduler can close the
// current fingerprint segment. kind: "acquire" | "release" | "atomic".
var SyncHook func(kind string, addr uintptr)

type lockState struct {
	owner   int // task id, -1 free
	readers map[int]int
}

var locks = map[uintptr]*lockState{}
var onces = map[uintptr]int{} // 0 not run, 1 running, 2 done
var atomicAddrs = map[uintptr]bool{}

// ResetSync forgets lock ownership between scenarios. Once state is process-wide, exactly
// like sync.Once itself, and is never reset.
func ResetSync() {
	locks = map[uintptr]*lockState{}
	atomicAddrs = map[uintptr]bool{}
	pools = map[uintptr][]pooled{}
}

func AtomicAddrs() map[uintptr]bool { return atomicAddrs }

func taskID() int {
	if ts := currentTask(); ts != nil {
		return ts.ID
	}
	return 0
}

// HeldLocks returns the addresses of the locks the current task holds.
func HeldLocks() []uintptr {
	id := taskID()
	var out []uintptr
	for a, l := range locks {
		if l.owner == id || l.readers[id] > 0 {
			out = append(out, a)
		}
	}
	sort.Slice(out, func(i, j int) bool { return out[i] < out[j] })
	return out
}

func lockOf(addr uintptr) *lockState {
	l := locks[addr]
	if l == nil {
		l = &lockState{owner: -1, readers: map[int]int{}}
		locks[addr] = l
	}
	return l
}

func hook(kind string, addr uintptr) {
	if SyncHook != nil {
		SyncHook(kind, addr)
	}
}

func MutexLock(m *sync.Mutex) {
	if !sch.attached.Load() {
		m.Lock()
		return
	}
	addr := uintptr(unsafe.Pointer(m))
	l := lockOf(addr)
	for l.owner != -1 {
		Yield(-1)
	}
	l.owner = taskID()
	hook("acquire", addr)
}

func MutexUnlock(m *sync.Mutex) {
	if !sch.attached.Load() {
		m.Unlock()
		return
	}
	addr := uintptr(unsafe.Pointer(m))
	hook("release", addr)
	lockOf(addr).owner = -1
}

func RWLock(m *sync.RWMutex) {
	if !sch.attached.Load() {
		m.Lock()
		return
	}
	addr := uintptr(unsafe.Pointer(m))
	l := lockOf(addr)
	for l.owner != -1 || len(l.readers) > 0 {
		Yield(-1)
	}
	l.owner = taskID()
	hook("acquire", addr)
}

func RWUnlock(m *sync.RWMutex) {
	if !sch.attached.Load() {
		m.Unlock()
		return
	}
	addr := uintptr(unsafe.Pointer(m))
	hook("release", addr)
	lockOf(addr).owner = -1
}

func RWRLock(m *sync.RWMutex) {
	if !sch.attached.Load() {
		m.RLock()
		return
	}
	addr := uintptr(unsafe.Pointer(m))
	l := lockOf(addr)
	for l.owner != -1 {
		Yield(-1)
	}
	l.readers[taskID()]++
	hook("acquire", addr)
}

func RWRUnlock(m *sync.RWMutex) {
	if !sch.attached.Load() {
		m.RUnlock()
		return
	}
	addr := uintptr(unsafe.Pointer(m))
	hook("release", addr)
	l := lockOf(addr)
	id := taskID()
	if l.readers[id]--; l.readers[id] <= 0 {
		delete(l.readers, id)
	}
}

func OnceDo(o *sync.Once, f func()) {
	addr := uintptr(unsafe.Pointer(o))
	if !sch.attached.Load() {
		if onces[addr] == 2 {
			return
		}
		o.Do(f)
		onces[addr] = 2
		return
	}
	for onces[addr] == 1 {
		Yield(-1)
	}
	if onces[addr] == 2 {
		hook("acquire", addr)
		return
	}
	onces[addr] = 1
	f()
	hook("release", addr)
	onces[addr] = 2
	o.Do(func() {}) // the real Once is done as well, whoever looks at it later
}

// sync.Pool under the simulator is a deterministic free list per pool: what Get returns
// depends on the schedule the simulator chose and on nothing else (the real pool keeps
// per-P caches that the garbage collector empties). Get prefers the object most recently
// put back by ANOTHER task, else the most recent one: the reuse a pool permits, made as
// likely as possible to cross callers.
type pooled struct {
	x    any
	task int
}

var pools = map[uintptr][]pooled{}

// ResetPools empties every modelled pool (between scenarios).
func ResetPools() { pools = map[uintptr][]pooled{} }

// ModelPools makes PoolGet/PoolPut use the deterministic free list also when no scheduler
// is attached (codec builds): what a real sync.Pool hands back depends on the garbage
// collector and the processor the goroutine runs on, neither of which replays.
func ModelPools(on bool) { poolModel = on }

var poolModel bool

func PoolGet(p *sync.Pool) any {
	if !sch.attached.Load() && !poolModel {
		return p.Get()
	}
	addr := uintptr(unsafe.Pointer(p))
	hook("acquire", addr)
	if l := pools[addr]; len(l) > 0 {
		pick := len(l) - 1
		me := taskID()
		for i := len(l) - 1; i >= 0; i-- {
			if l[i].task != me {
				pick = i
				break
			}
		}
		x := l[pick].x
		pools[addr] = append(l[:pick:pick], l[pick+1:]...)
		return x
	}
	if p.New != nil {
		return p.New()
	}
	return nil
}

func PoolPut(p *sync.Pool, x any) {
	if !sch.attached.Load() && !poolModel {
		p.Put(x)
		return
	}
	if x == nil {
		return
	}
	addr := uintptr(unsafe.Pointer(p))
	hook("release", addr)
	pools[addr] = append(pools[addr], pooled{x: x, task: taskID()})
}

// AtomicAddr marks the address as accessed atomically and returns it unchanged.
func AtomicAddr[P any](p *P) *P {
	if sch.attached.Load() {
		atomicAddrs[uintptr(unsafe.Pointer(p))] = true
		hook("atomic", uintptr(unsafe.Pointer(p)))
	}
	return p
}
