#!/bin/bash
# Applies a seeded change to /repo, runs the given checks (quick tier), reverts.
# usage: tools_run_seeded.sh <seeded dir> <ID>...
d=$1; shift
cd /verif
git -C /repo diff --quiet || { echo "repo dirty"; exit 9; }
git -C /repo apply "$(realpath $d)/patch.diff" || { echo "patch does not apply"; exit 8; }
for id in "$@"; do
  out=$(timeout 1500 ./bin/verif check $id 2>&1); rc=$?
  sig=$(echo "$out" | grep -m3 "signature=" | sed 's/^ *//' | cut -c1-220 | tr '\n' ';')
  echo "$(basename $d) $id exit=$rc $sig"
done
git -C /repo checkout -- .
find /verif/replays -name '*.json' -delete
