#!/bin/bash
# Runs checks (quick tier) against a seeded change WITHOUT touching /repo or /verif's
# evidence: the patch is applied to a scratch worktree of /repo (VERIF_REPO points the
# checks at it) and the checks run from a scratch copy of /verif; both are removed.
# usage: tools_run_seeded.sh <seeded dir> <ID>...
export GOFLAGS=-mod=mod GOPROXY=off GOSUMDB=off GOTOOLCHAIN=local
d=$(realpath $1); shift
n=$(basename $d)
wt=/tmp/seedrun/$n.repo
vd=/tmp/seedrun/$n.verif
mkdir -p /tmp/seedrun
git -C /repo worktree remove --force $wt >/dev/null 2>&1
rm -rf $wt $vd
git -C /repo worktree prune
git -C /repo worktree add -q --detach $wt HEAD || { echo "$n: worktree failed"; exit 9; }
if ! git -C $wt apply "$d/patch.diff" 2>/dev/null; then
  # changes of early rounds were written against the tree before some repairs; a version
  # rebased by hand onto the repaired tree may sit next to the original
  if [ ! -f "$d/patch.rebased.diff" ] || ! git -C $wt apply "$d/patch.rebased.diff"; then
    echo "$n patch does not apply"
    git -C /repo worktree remove --force $wt; exit 8
  fi
fi
mkdir -p $vd
rsync -a --exclude .git --exclude seeded --exclude replays --exclude evidence /verif/ $vd/
mkdir -p $vd/evidence $vd/replays
for id in "$@"; do
  out=$(cd $vd && VERIF_REPO=$wt timeout 1500 ./bin/verif check $id 2>&1); rc=$?
  sig=$(echo "$out" | grep -m3 "signature=" | sed 's/^ *//' | cut -c1-220 | tr '\n' ';')
  [ $rc = 2 ] && echo "$out" | grep -m2 "trouble" | cut -c1-600
  echo "$n $id exit=$rc $sig"
done
git -C /repo worktree remove --force $wt
rm -rf $vd
