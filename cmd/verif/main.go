// Command verif is the coordinator of the deterministic simulation checks.
package main

import (
	"fmt"
	"os"

	"verif/pkg/coord"
)

func usage() {
	fmt.Fprintln(os.Stderr, "usage: verif check <ID> [--tier quick|thorough] | verif replay <file> | verif selftest <determinism|transparency> [ID...]")
	os.Exit(2)
}

func main() {
	if len(os.Args) < 2 {
		usage()
	}
	switch os.Args[1] {
	case "check":
		if len(os.Args) < 3 {
			usage()
		}
		id := os.Args[2]
		tier := os.Getenv("VERIF_TIER")
		for i := 3; i < len(os.Args); i++ {
			if os.Args[i] == "--tier" && i+1 < len(os.Args) {
				tier = os.Args[i+1]
			}
		}
		if tier != "thorough" {
			tier = "quick"
		}
		os.Exit(coord.Check(id, tier))
	case "replay":
		if len(os.Args) < 3 {
			usage()
		}
		os.Exit(coord.ReplayFile(os.Args[2]))
	case "selftest":
		os.Exit(coord.SelfTest(os.Args[2:]))
	default:
		usage()
	}
}
