#!/bin/bash
# Confirms a seeded change independently: in a fresh scratch worktree of /repo the demo
# passes WITHOUT the patch, the patch applies, the tree builds, the repository's own suite
# passes, and the demo FAILS with the patch. usage: tools_confirm_seeded.sh <srcdir with _seeded> <id>
export GOFLAGS=-mod=mod GOPROXY=off GOSUMDB=off GOTOOLCHAIN=local
src=$1; id=$2
wt=/tmp/confirm/$id
rm -rf $wt; mkdir -p /tmp/confirm
git -C /repo worktree prune
git -C /repo worktree add -q --detach $wt HEAD || exit 9
cp -r $src/_seeded $wt/_seeded
cd $wt
cmd=$(python3 -c "import json;print(json.load(open('_seeded/meta.json'))['demo_cmd'])")
regen=""
[ -f _seeded/demo/regen.sh ] && regen="_seeded/demo/regen.sh"
# without the patch (regenerate demo code with the unpatched generator when a regen script exists)
if [ -n "$regen" ]; then sh $regen >/dev/null 2>&1; fi
( eval "$cmd" ) > /tmp/confirm/$id.without.log 2>&1; r0=$?
git apply _seeded/patch.diff || { echo "$id: PATCH DOES NOT APPLY"; exit 8; }
go build ./... > /tmp/confirm/$id.build.log 2>&1; rb=$?
go vet ./main/... >> /tmp/confirm/$id.build.log 2>&1; rv=$?
go test -vet=off -count=1 ./... > /tmp/confirm/$id.suite.log 2>&1; rs=$?
git checkout -q -- testdata 2>/dev/null
if [ -n "$regen" ]; then sh $regen >/dev/null 2>&1; fi
( eval "$cmd" ) > /tmp/confirm/$id.with.log 2>&1; r1=$?
echo "$id: demo_without=$r0 build=$rb vet=$rv suite=$rs demo_with=$r1"
cd /
git -C /repo worktree remove --force $wt
