module verif

go 1.21
